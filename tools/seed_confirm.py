#!/usr/bin/env python3
"""Confirm sub-agent seeds independently: for each /tmp/wt_<P>/seed_out/change_<i>:
   (1) clean worktree: demo exits 0;  (2) patched: demo exits non-zero;  (3) patched: baseline suite passes.
Confirmed seeds are copied to /verif/seeded/<P>-<i>/ with meta.json.  Usage: seed_confirm.py P [P ...]"""
import json
import os
import shutil
import subprocess
import sys
import xml.etree.ElementTree as ET
from concurrent.futures import ThreadPoolExecutor

BASE = set(json.load(open("/root/.vp/BASELINE.json"))["stable_pass"])


def sh(cmd, cwd=None, env=None, timeout=1500):
    e = dict(os.environ)
    if env:
        e.update(env)
    p = subprocess.run(cmd, shell=True, cwd=cwd, env=e, capture_output=True, text=True, timeout=timeout)
    return p.returncode, p.stdout[-3000:] + p.stderr[-3000:]


def confirm(prop, i):
    src = f"/tmp/wt_{prop}/seed_out/change_{i}"
    if not os.path.exists(f"{src}/patch.diff"):
        return prop, i, "missing", ""
    wt = f"/tmp/confirm_{prop}_{i}"
    sh(f"git -C /repo worktree remove --force {wt}")
    rc, out = sh(f"git -C /repo worktree add -q --detach {wt} HEAD")
    if rc:
        return prop, i, "worktree failed", out
    try:
        env = {"PYTHONPATH": wt}
        rc0, o0 = sh(f"/venv/bin/python -W ignore {src}/demo.py", cwd="/tmp", env=env, timeout=600)
        rc, out = sh(f"git -C {wt} apply {src}/patch.diff")
        if rc:
            return prop, i, "patch does not apply to current HEAD", out
        rc1, o1 = sh(f"/venv/bin/python -W ignore {src}/demo.py", cwd="/tmp", env=env, timeout=600)
        junit = f"/tmp/confirm_{prop}_{i}.xml"
        sh(f"/venv/bin/python -m pytest -q -p no:cacheprovider --timeout=900 --continue-on-collection-errors --junitxml={junit} tests",
           cwd=wt, env=env, timeout=1500)
        passed = set()
        for tc in ET.parse(junit).getroot().iter("testcase"):
            if not any(ch.tag in ("failure", "error", "skipped") for ch in tc):
                passed.add(f"{tc.get('classname')}::{tc.get('name')}")
        missing = sorted(BASE - passed)
        ok = (rc0 == 0) and (rc1 != 0) and not missing
        status = "confirmed" if ok else f"rejected: clean_rc={rc0} patched_rc={rc1} missing_tests={missing[:3]}"
        if ok:
            dst = f"/verif/seeded/{prop}-{i}"
            os.makedirs(dst, exist_ok=True)
            shutil.copy(f"{src}/patch.diff", f"{dst}/patch.diff")
            shutil.copy(f"{src}/demo.py", f"{dst}/demo.py")
            note = open(f"{src}/note.txt").read() if os.path.exists(f"{src}/note.txt") else ""
            meta = dict(id=f"{prop}-{i}", property=prop, needs=note.strip(),
                        confirmed=dict(demo_clean_rc=rc0, demo_patched_rc=rc1, baseline_tests_passing=len(BASE & passed),
                                       ran=["demo.py on a clean worktree of /repo HEAD", "demo.py with patch.diff applied",
                                            "pytest tests (212 baseline tests) with patch.diff applied"]),
                        source="independent sub-agent given only the property text and its own worktree")
            json.dump(meta, open(f"{dst}/meta.json", "w"), indent=1)
        return prop, i, status, (o1[-400:] if not ok else "")
    finally:
        sh(f"git -C /repo worktree remove --force {wt}")
        for f in (f"/tmp/confirm_{prop}_{i}.xml",):
            if os.path.exists(f):
                os.remove(f)


if __name__ == "__main__":
    todo = [(p, i) for p in sys.argv[1:] for i in (1, 2, 3, 4, 5, 6)]
    with ThreadPoolExecutor(4) as ex:
        for prop, i, st, extra in ex.map(lambda a: confirm(*a), todo):
            if st != "missing":
                print(prop, i, st, extra.replace("\n", " ")[:300], flush=True)
