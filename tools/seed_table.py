#!/usr/bin/env python3
"""Regenerate the seeded-change table at the end of DESIGN.md from seeded/*/meta.json."""
import json
import os
import re

ROOT = os.path.dirname(os.path.dirname(os.path.abspath(__file__)))
MARK = "<!-- SEED-TABLE -->"


def main():
    rows = []
    for sid in sorted(os.listdir(f"{ROOT}/seeded")):
        p = f"{ROOT}/seeded/{sid}/meta.json"
        if not os.path.exists(p):
            continue
        m = json.load(open(p))
        det = m.get("detection", {})
        by = []
        for prop, d in det.items():
            if isinstance(d, dict) and d.get("exit") == 1:
                first = d.get("first") or ""
                h = re.search(r"\((C\d+:[^ ]+)", first)
                by.append(f"{prop} ({h.group(1) if h else 'violation'})")
            elif isinstance(d, dict) and d.get("exit") not in (0, 1, None):
                by.append(f"{prop}: exit {d.get('exit')} (inconclusive/harness)")
        needs = " ".join(m.get("needs", "").split())[:140]
        rows.append(f"| {sid} | {m['property']} | {needs} | {'; '.join(by) if by else '**missed**'} |")
    table = ("\n" + MARK + "\n\n### Seeded changes and the checks that catch them\n\n"
             "| seed | property | what it needs to manifest (author's note, abridged) | caught by (quick tier) |\n"
             "|------|----------|------------------------------------------------------|------------------------|\n"
             + "\n".join(rows) + "\n")
    p = f"{ROOT}/DESIGN.md"
    s = open(p).read()
    if MARK in s:
        s = s[:s.index("\n" + MARK)]
    open(p, "w").write(s.rstrip("\n") + "\n" + table)
    print(len(rows), "rows")


if __name__ == "__main__":
    main()
