#!/usr/bin/env python3
"""Regenerate MANIFEST.json from the table below (kept in one place so it is always valid)."""
import json, os
ROOT = os.path.dirname(os.path.dirname(os.path.abspath(__file__)))

TECH = "solver-based checking of the real code: CasADi instruction list of the real functions -> SMT (z3 nlsat, per branch cell), models replayed on the real code"
CHECKS = {
    "C02": dict(cat="proof", design="§3 C02",
                text="Every exp implementation is executed on CasADi symbols; each matrix entry of M(exp x) is proved equal to the closed-form matrix exponential for all theta in (0,2pi) and all axes/translations (series coefficients bound to their exact meaning, which C06 lemmas justify), plus theta=0 exactly and exp(-x)exp(x)=I. Proof over the reals within the stated charts.",
                note="trusted: CasADi SX/instruction API, IR->SMT encoder (validated per run against CasADi's VM), closed-form expm oracles, Weierstrass/stereographic charts, z3; real arithmetic (no IEEE rounding); SE_2(3)/Euler exp cut at from_Matrix (lemma: C01/C07)."),
}
NA = {
 "C17": "closed-loop stability of a 17-state nonlinear loop over 10^3-3*10^3 controller/plant steps is not a bounded SMT question (no unrolling of transcendental dynamics of that length is within reach of z3/cvc5, and no inductive Lyapunov certificate for the shipped gains exists to check); per the brief the technique is not switched. Necessary one-step facts are decided under C13 (mixer), C14/C15 (controllers) and C16 (plant).",
}
CHECKS["C01"] = dict(cat="proof", design="§3 C01",
    text="Product/inverse/identity/to_Matrix/from_Matrix of every exposed group and three direct products are executed on CasADi symbols; homomorphism, two-sided inverse, identity, neutrality, associativity and the from_Matrix right-inverse law are proved per matrix entry as polynomial/rational identities on rational charts of the group manifolds (all elements except measure-zero chart points covered by a second chart).",
    note="trusted: CasADi SX/instruction API, IR->SMT encoder (validated per run), charts (S^3 stereographic both signs, Weierstrass angles), inverse-trig contracts, z3. Real arithmetic. Matrix-based products (DCM, Euler) and MRP from_Matrix are verified modularly (cut at from_Matrix + right-inverse lemma). Associativity of MRP-based groups is the corollary of the homomorphism law (direct identity not attempted). Euler: pitch band +-(1e-3+1e-9) excluded.")
CHECKS["C03"] = dict(cat="proof", design="§3 C03",
    text="log of every group executed symbolically on angle-parametrised inputs X = rep(phi, n): acos/atan nodes are resolved against the input's own angle, then log(exp x) = x (angle < pi), log X = closed-form principal logarithm (rotation part phi*n for quaternions of either sign, inner MRPs, DCMs; translation parts J_l^-1 p) and M(exp(log X)) = M(X) (incl. shadow MRPs) are proved per entry; log(e) = 0 by exact constant evaluation; Euler log by delegation to the DCM log.",
    note="trusted: as C01/C02 plus acos(cos y)=y on [0,pi], atan(tan y)=y on (-pi/2,pi/2). Denominators on the path assumed non-zero = stated margin at the pi singularity (DCM) and SE(2) theta not a non-zero multiple of 2pi. exp(log X)=X is proved in two stages (log X = oracle; real exp of that value = X).")
CHECKS["C05"] = dict(cat="proof", design="§3 C05",
    text="so(3)/se(3)/se_2(3) Jacobians executed symbolically: J J^-1 = I (left and right), J_l = Ad_exp(x) J_r = J_r(-x), and column-by-column J_l e_i = vee(dM(exp x)/dx_i M^-1), J_r e_i = vee(M^-1 dM/dx_i) with the derivative taken by CasADi's AD of the real exp (series stubs differentiated by the chain rule) for theta in (0,2pi); theta=0 by exact evaluation; quaternion (left/right) and MRP kinematic Jacobians satisfy dM/dparam (J w) = M w^ / w^ M and q.(J w)=0 for all parameters.",
    note="trusted: as C02 plus CasADi AD and the calculus of the series oracles (dual numbers). Real arithmetic.")
CHECKS["C07"] = dict(cat="proof", design="§3 C07",
    text="All 12 ordered conversions, the from_Matrix entry points and shadow_if_necessary executed symbolically. Direct conversions and the two leaf extractors (4-branch Shepperd on every rotation matrix via both S^3 charts; Euler extraction on canonical angles) are proved per branch cell: same rotation matrix, unit norm / |r|<=1 / orthonormal + det 1 / pitch range, and every denominator or sqrt argument on the selected branch is defined; composite conversions are proved to hand M(X) to the leaf and to return the leaf's output (or from_Quat of it).",
    note="trusted: as C01. Real arithmetic. Euler: exact claim outside the +-(1e-3+1e-9) pitch band only; the 'within band tolerance' clause is not decided. Composite conversions rest on the leaf lemmas (modular).")
CHECKS["C08"] = dict(cat="proof", design="§3 C08",
    text="SE23Quat.exp_mixed with the strapdown wiring is executed on symbols; every component of x1 (p, v, q and R(q)) is proved equal to the closed-form flow of p'=v, v'=Ra-g e3, R'=R[w]x for |w|dt in (0,2pi), all axes, all x0 (unit q0 of either sign and arbitrary q0), a, g, dt>0; w=0 and dt=0 exactly; quaternion norm preserved; two-step semigroup law Phi(dt2)oPhi(dt1)=Phi(dt1+dt2) (inductive step for every step sequence); the shipped function strapdown_ins_propagate is proved identical to that group-method step on all branch cells.",
    note="trusted: as C02 plus the closed form of the flow (Gamma_1, Gamma_2). Real arithmetic. The series-coefficient stubs cannot be applied inside a pre-built ca.Function, so the generated function is tied to the analysed expression by an all-cells equality harness.")
CHECKS["C13"] = dict(cat="proof", design="§3 C13",
    text="control_allocation's instruction list is encoded with if-then-else over the reals; for all demands and all positive parameters: 0 <= Fp <= F_max, omega defined and non-negative, M_sat/F_thrust/F_moment are the range-limited demands through the mixer, jointly feasible demands are reproduced exactly, and when the moment's motor-force spread fits in F_max the output is F_moment plus the least collective shift. One z3 query per claim; models replayed exactly with rational arithmetic on the real instruction list.",
    note="trusted: CasADi SX/instruction API, ite encoder (validated per run), z3. Real arithmetic; parameters > 0.",
    tech="solver-based checking of the real code: CasADi instruction list -> SMT with ite (z3 NRA), exact rational replay of models")
CHECKS["C06"] = dict(cat="proof", design="§3 C06, §1.5",
    text="All 36 series functions are verified in isolation from their own instruction lists: closed branch = exact function (formal identity), Taylor branch within 1e-12 of it on the whole Taylor cell (alternating-series enclosures of sin/cos/atan substituted at the box corners; univariate polynomial inequalities), value at 0 within 1e-12 of the limit, hence no jump at the switch; derivative (CasADi AD) defined on every branch for 0<|x|<=1 and at 0. Consumers (exp, log, Jacobians of every group): AD at exactly zero rotation evaluated exactly through the instruction list with symbolic translations - any zero denominator, negative sqrt or non-finite constant on the selected path is a violation.",
    note="trusted: enclosures by consecutive Maclaurin partial sums (|x|<=1), corner argument (affine or coordinate-wise monotone in sin/cos), limits table. NOT decided: IEEE rounding/cancellation of the closed branch near the switch (the 1e-9 double-precision clause is covered for truncation and switch jump only), denormal inputs, consumer-level AD on a neighbourhood of zero (thorough tier, SO(3)/SE(3) exp and Jacobians only). Poles '1/x^2', '(2-x cos x)/(2x^2)' and the squared odd key '(1-cos x)/x' are exempt at 0 (no consumer).")
CHECKS["C18"] = dict(cat="proof", design="§3 C18",
    text="Bezier.eval/deriv, bezier3/7_solve, bezier3/7_traj and bezier_multirotor executed symbolically for enumerated (degree, dimension, derivative order): eval = Bernstein polynomial and end points; deriv(m).eval = m-th CasADi-AD derivative of eval; solver outputs meet every boundary condition for symbolic T>0 (plus fixed-T instances to 1e-9 on |w|<=100), solver denominators non-zero; trajectory outputs are successive derivatives. One polynomial/rational identity per component.",
    note="trusted: CasADi SX/AD/instruction API, encoder (validated per run), Bernstein form, z3. Real arithmetic. Bounds: degree <= 7 (quick) / 9 (thorough), dimension <= 3, derivative order <= 4 (quick) / n (thorough).")
CHECKS["C10"] = dict(cat="proof", design="§3 C10",
    text="cyecca.util routines executed on symbolic matrices of bounded dimension: sqrt_covariance_predict (n=2,3): W' lower triangular and W'W^T + W W'^T = FP + PF^T + Q; sqrt_correct ((n_x,n_y) in (1,1),(2,1),(3,1)): Ss Ss^T = HPH^T + R, K S = P H^T, W+ W+^T = (I-KH)P, W+ lower triangular (fresh sqrt atoms reduced modulo y^2 = radicand); LDL^T/UDU^T (n<=4): reconstruction, unit triangular, D diagonal; rk4: exact for f cubic in t and the h-derivatives of one step at h=0 equal the total derivatives of the exact solution up to order 4 for a bivariate cubic f with symbolic coefficients and for a 2-d linear system.",
    note="trusted: CasADi SX/AD/QR/inverse, encoder (validated per run), z3. Real arithmetic; pivots/diagonals assumed non-zero. NOT decided: sqrt_correct with n_y >= 2 (one entry of the (2,2) case times out), n=1 for sqrt_covariance_predict (the routine raises for a scalar state; outside the range), larger dimensions than stated. rk4 constants within 2 ulp of p/q are read as p/q (stated).")
CHECKS["C16"] = dict(cat="proof", design="§3 C16",
    text="quadrotor model f, g_accel, g_gyro executed with all 39 parameters symbolic: q.q'=0 for every state; above ground without aerodynamic terms the net force/moment recovered from x' equal the per-rotor sum (thrust along body z at l_i(cos th_i, sin th_i, 0), reaction torque -CM dir_i T_i) plus gravity, and p' = R v; symmetric frame + quarter-weight rotors + level at rest => x' = 0; shipped defaults satisfy the symmetric-frame premises; free fall => accelerometer 0, gyro = body rate; equivariance under horizontal translation and yaw rotation on all branch cells; motor speed follows (cmd-om)/tau_up|down on its two cells and relaxes monotonically.",
    note="trusted: CasADi SX/instruction API, encoder (validated per run), S^3 chart, formal (sin,cos) pairs, z3. Real arithmetic; m, J, tau, CT > 0.")
CHECKS["C15"] = dict(cat="proof", design="§3 C15",
    text="One-step obligations from an arbitrary previous state (inductive invariants): rate controller |i1|<=i_max, 0<alpha<1, e1/de1/M laws; velocity input: yaw set-point in [-pi,pi], |pw_sp1-pw|<=2, reset puts it on the vehicle, stick maps; acro stick maps and bounds; position controller: feedback term <= 0.3 m g (thrust vector observed by call-through recording of norm_2 arguments), height integrator within its limit, thrust = |T|. Attitude laws: the shipped functions are congruent (QF_UF) to kp o log(X^-1 X_r) resp. J_l diag(kp) log; X^-1 X_r has exactly the parameters of the relative rotation (either quaternion sign); its log is phi*n for phi in (0,pi), so omega = kp o (phi n) / J_l(phi n) diag(kp) phi n; exactly zero for q_r = +-q. se23_error: congruent to log(X^-1 X_r); relative element exact (log: C03).",
    note="trusted: as C03 + IEEE commutativity of +,* for the QF_UF congruence. Real arithmetic; pi is the code's double. input_auto_level's angle map is only covered through C14 (unit quaternion).")
CHECKS["C19"] = dict(cat="proof", design="§3 C19",
    text="Expression trees are enumerated over the accepted grammar (every constructor on symbols and on every leaf class, all depth-2 compositions, matrices, cse path, two-entry function dictionary; reverse direction: every accepted opcode incl. fmod, remainder, floor/ceil, sign, comparisons, logic, fmin/fmax, if_else, hyperbolics). For each program the converter output (CasADi instruction list resp. SymPy tree) and the source are both translated to SMT (ite encoding, transcendental heads uninterpreted) and z3 decides source != converted on the common domain; unsat for every program; constant programs are decided by evaluation; symbol-table consistency checked.",
    note="trusted: the SymPy->SMT reference translator (standard meaning of each node), ite encoder, z3. Constants within 2 ulp of p/q read as p/q on both sides; programs in which SymPy leaves an irrational numeric factor next to symbols are outside the bounded grammar (CasADi folds them in double precision); remainder on |a|<=8; an exception from the converter counts as rejection (allowed).",
    tech="solver-based checking: grammar-enumerated programs, converter output and source both encoded in SMT (z3, UF + LRA/NRA + ints), sat models replayed numerically on both sides")
CHECKS["C09"] = dict(cat="translation_validation", design="§3 C09, §1.7",
    text="Every shipped equation set is generated through its own entry point (estimator via both generators, rdd2 / rdd2_loglinear / bezier via their __main__ export blocks, mr_ref_traj via the generic generator) with default options, plus single-option flips (thorough: pairs). Per generated function: exported name present (none missing/extra/duplicate), n_in/n_out, argument names and sparsity tables equal the Function's; the straight-line C body is parsed and proved congruent to the Function's instruction list in QF_UF with all operations uninterpreted (bit-identical results under any deterministic IEEE/libm semantics, incl. non-finite values in unselected branches); gcc -Wall -Werror compiles it; the compiled object is executed against CasADi's VM at random points (validation of the parser). Option combinations CasADi rejects must raise.",
    note="trusted: CasADi instruction API, the C parser (cross-executed every run), gcc, IEEE commutativity of + and *. Not addressed: compiler correctness; an export list that omits a derive_* function cannot be noticed (the equation set is whatever the entry point passes to the generator).",
    tech="solver-based translation validation: generated C parsed to an SSA DAG and proved congruent (QF_UF, z3) to the CasADi instruction list; differential execution as parser validation")
CHECKS["C14"] = dict(cat="proof", design="§3 C14",
    text="Internal vectors of the shipped derive_* functions are observed by call-through recording (norm_2, cross, from_Matrix) and exposed through an auxiliary Function over the shipped function's own inputs. Per branch cell: the matrix handed to the quaternion extraction is orthonormal with det 1 (position_control, se23_position_control, f_ref, mr_ref_traj, input_auto_level, eulerB321_to_quat); z-axis times thrust magnitude equals the demanded force and thrust = |force|; y-axis perpendicular to the heading; flatness references: thrust = m(g e3 - a), (dz_b/da) j = q x_b - p y_b with CasADi AD of the real code, M_b congruent (QF_UF) to J w' + w x J w; yaw-rate output defined on every cell. Unit quaternion follows from the re-discharged Shepperd leaf lemma. Four genuine defects in degenerate cells are recorded as known findings K1-K4.",
    note="trusted: as C07 + call-through recording + CasADi AD. Bounds: camera quaternion pure yaw (any yaw); attitude-error part of zeta zero in se23_position_control. NOT decided: agreement of f_ref with mr_ref_traj beyond both meeting the same oracles (instruction lists not congruent), yaw acceleration r_dot, cells the solver cannot exclude but whose models do not reach them on the real code (counted in evidence).")
CHECKS["C11"] = dict(cat="other", design="§3 C11 (Part II §7)",
    text="PARTIAL. Decided for all inputs of the stated cells: an accelerometer correction that reports a non-zero error code returns x and W unchanged (both sides of the magnitude gate); predict returns the real shadow switch applied to its RK4 step (QF_UF congruence) hence |r1| <= 1 by the re-discharged shadow lemma, leaves the bias unchanged, has a structurally lower-triangular W1, and its MRP step matches the exact flow of r' = B(r)(omega - b) to fourth order (dt-derivatives at 0 equal the Lie derivatives up to order 4, with CasADi AD on the real predict).",
    note="NOT decided (stated in evidence): rejection through the magnetometer gates, exactness of initialize, finiteness of the covariance step for every well-conditioned W, P+ <= P for accepted corrections (6-state symbolic QR out of reach; the identities are C10's for n_x <= 2). 'Bit-for-bit' is decided as equality over the reals.")
CHECKS["C12"] = dict(cat="other", design="§3 C12 (Part II §7)",
    text="PARTIAL - the convergence claim itself is NOT decided (outside the reach of bounded solver-based checking; no certificate). Decided necessary conditions: simulator sensor models (accelerometer = M(r)^T(-g e3) with norm g; gyro = omega + bias; magnetometer at zero declination/inclination = M(r)^T (s e1) with norm s) for all MRPs, and the truth is a fixed point of the accelerometer correction (zero innovation, error code 0) for all attitudes and 9.5 <= g <= 10.1. These catch wrong-magnitude / wrong-frame measurements (the 'everything rejected' failure the property text mentions).",
    note="explanation-level claim only: closed-loop convergence over 10^3-10^4 steps, magnetometer model with non-zero declination/inclination and the magnetometer fixed point are listed as not decided.")
CHECKS["C20"] = dict(cat="model_checking", design="§3 C20",
    text="CrossHair (symbolic execution of Python with z3) drives the real uros Core/Publisher/Subscriber/Param classes and the real AttitudeEstimator node: delivery log equals the reference log (exactly once, synchronously, in publication and subscription order, only to subscribers of the topic) for all assignments of <= 2 subscribers and <= 3 publications over 3 topics; wrong message type raises ValueError and reaches nobody; after set_param every node following the parameter topic sees the value (<= 3 updates); the estimator never predicts with dt <= 0 and spaces accel/mag corrections by at least dt_min - 1 ms for any <= 3 callbacks with arbitrary times in [0,100]. Only 'Confirmed over all paths' counts; each function has a reachability twin that must be refuted.",
    note="trusted: CrossHair + z3; CasADi kernels replaced by recording stubs; status/attitude messages dict-backed. NOT decided: the Logger's periodic snapshot (simpy process), larger histories (thorough: 3 subscribers x 4 publications, 4 callbacks).",
    tech="solver-based checking of the real Python code: CrossHair symbolic execution (z3), path-exhaustive within the stated bounds, counterexamples replayed by concrete calls")
CHECKS["C04"] = dict(cat="proof", design="§3 C04",
    text="Ad/ad/bracket of every group/algebra executed symbolically; (Ad_X y)^ = M(X) y^ M(X^-1), Ad homomorphism and inverse, ad = bracket = matrix commutator, antisymmetry, Jacobi, block-diagonal direct-sum ad, and Ad_exp(x) = expm(ad_x) in closed form (Rodrigues / Barfoot quartic) are proved per entry; wrong shapes and crashes of offered operations are violations.",
    note="trusted: as C01 plus the closed forms of expm(ad) and the theorem Ad_{exp A} = expm(ad_A) (used for SE_2(3)/Euler where exp ends in from_Matrix). Operations raising NotImplementedError are out of scope as the property states.")
ALL = [f"C{i:02d}" for i in range(1, 21)]
PENDING = "check not built yet in this session (machinery under construction); see DESIGN.md for the planned encoding"

def main():
    checks = []
    for pid in ALL:
        if pid in CHECKS:
            c = CHECKS[pid]
            checks.append(dict(
                property_id=pid,
                quick_cmd=f"./check {pid} --tier quick",
                thorough_cmd=f"./check {pid} --tier thorough",
                evidence_file=f"/verif/evidence/{pid}.json",
                replay_cmd_template=f"./check {pid} --replay {{path}}",
                engine="vf",
                level_claimed=dict(category=c["cat"], text=c["text"], design_ref=c["design"]),
                level_note=c["note"],
                technique=c.get("tech", TECH)))
    na = [dict(property_id=p, reason=NA.get(p, PENDING)) for p in ALL if p not in CHECKS]
    m = dict(
        version=1,
        setup_cmd="./bootstrap.sh",
        hooks=dict(guard="COGNIPILOT_CYECCA_VERIF", enable="no hooks needed: stubs/cuts are installed by in-process monkey-patching inside the harness (no guarded source change exists)",
                   baseline_off_cmd="cd /repo && /venv/bin/python -m pytest -ra -q -p no:cacheprovider --timeout=900 --continue-on-collection-errors",
                   source_commits=[], add_only=True),
        engines=[dict(name="vf", path="/verif/vf", serves_properties=sorted(CHECKS),
                      kind_free_text="symbolic execution of cyecca's CasADi code (instruction list as IR) + z3/cvc5 SMT per branch cell; CrossHair for the plain-Python bus")],
        checks=checks,
        not_applicable=na,
        notes="All checks regenerate their encoding from /repo's working tree on every run. Exit codes: 0 ok, 1 VIOLATION, 2 inconclusive obligations (never on the unchanged tree), 3 harness error.")
    with open(os.path.join(ROOT, "MANIFEST.json"), "w") as fh:
        json.dump(m, fh, indent=1)

if __name__ == "__main__":
    main()
