#!/usr/bin/env python3
"""Run the registered quick checks against each confirmed seed: apply seeded/<id>/patch.diff to /repo, run the
check of the seed's property (plus any extra properties given in EXTRA), undo, and record the outcome in
meta.json.  Usage: seed_detect.py [id ...]   (default: every seed without a 'detection' entry)"""
import json
import os
import subprocess
import sys

ROOT = "/verif"
EXTRA = {"C01": ["C07"], "C02": ["C06"], "C03": ["C07"], "C05": ["C04", "C06"], "C07": ["C01"], "C08": ["C02"], "C06": ["C02"],
         "C10": ["C11"], "C15": []}


def sh(cmd, timeout=3600):
    p = subprocess.run(cmd, shell=True, capture_output=True, text=True, timeout=timeout)
    return p.returncode, p.stdout + p.stderr


def main():
    ids = sys.argv[1:] or sorted(os.listdir(f"{ROOT}/seeded"))
    for sid in ids:
        d = f"{ROOT}/seeded/{sid}"
        if not os.path.exists(f"{d}/patch.diff"):
            continue
        meta = json.load(open(f"{d}/meta.json"))
        if "detection" in meta and len(sys.argv) == 1:
            continue
        rc, out = sh("git -C /repo status --porcelain")
        if out.strip():
            print("refusing: /repo is not clean", out)
            return 1
        rc, out = sh(f"git -C /repo apply {d}/patch.diff")
        if rc:
            print(sid, "patch does not apply:", out[:200])
            meta["detection"] = {"error": "patch does not apply to current HEAD"}
            json.dump(meta, open(f"{d}/meta.json", "w"), indent=1)
            continue
        det = {}
        try:
            props = [meta["property"]] + EXTRA.get(meta["property"], [])
            for p in props:
                rc, out = sh(f"cd {ROOT} && VERIF_FAILFAST=1 ./check {p} --tier quick")
                viol = [l for l in out.splitlines() if l.startswith("VIOLATION")]
                summ = [l for l in out.splitlines() if l.startswith(p + " [")]
                det[p] = dict(exit=rc, violations=len(viol), first=(viol[0][:300] if viol else None),
                              summary=summ[-1] if summ else out[-300:])
                print(sid, p, "exit", rc, "violations", len(viol), (viol[0][:160] if viol else ""), flush=True)
        finally:
            sh("git -C /repo checkout -- .")
        meta["detection"] = det
        meta["detected"] = any(v["exit"] == 1 for v in det.values())
        json.dump(meta, open(f"{d}/meta.json", "w"), indent=1)
    return 0


if __name__ == "__main__":
    sys.exit(main())
