#!/bin/sh
# run the repository's pinned test suite (guard off) and compare with BASELINE.json's stable_pass list
OUT=${1:-/verif/.work/junit.xml}
mkdir -p /verif/.work
cd /repo && /venv/bin/python -m pytest -ra -q -p no:cacheprovider --timeout=900 --continue-on-collection-errors --junitxml=$OUT > /verif/.work/pytest.log 2>&1
/venv/bin/python - "$OUT" <<'PY'
import json, sys, xml.etree.ElementTree as ET
base = set(json.load(open('/root/.vp/BASELINE.json'))['stable_pass'])
passed = set()
for tc in ET.parse(sys.argv[1]).getroot().iter('testcase'):
    ok = not any(ch.tag in ('failure', 'error', 'skipped') for ch in tc)
    if ok:
        passed.add(f"{tc.get('classname')}::{tc.get('name')}")
missing = sorted(base - passed)
print(f"baseline: {len(base & passed)}/{len(base)} stable tests pass; missing: {missing[:10]}")
sys.exit(1 if missing else 0)
PY
