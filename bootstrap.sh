#!/bin/sh
# Idempotent, offline: build /verif/.venv as an overlay on /venv (the repository's interpreter)
# with z3-solver, cvc5, crosshair-tool and lark from the local wheelhouse.
set -e
HERE="$(cd "$(dirname "$0")" && pwd)"
V="$HERE/.venv"
STAMP="$V/.ok3"
if [ -f "$STAMP" ]; then exit 0; fi
(
  flock 9
  if [ -f "$STAMP" ]; then exit 0; fi
  rm -rf "$V"
  /venv/bin/python -m venv "$V"
  SP="$V/lib/python3.12/site-packages"
  printf '%s\n' "import site; site.addsitedir('/venv/lib/python3.12/site-packages')" > "$SP/_overlay.pth"
  PIP_NO_INDEX=1 "$V/bin/python" -m pip install -q --no-index --find-links /opt/veriftools/wheels \
      z3-solver cvc5 crosshair-tool lark >/dev/null
  "$V/bin/python" -c "import z3, cvc5, lark, casadi, cyecca, crosshair" 
  touch "$STAMP"
) 9>"$HERE/.bootstrap.lock"
