"""Exact polynomial normalisation of z3 arithmetic terms (preprocessing only).

z3's own simplifier does not fully expand deep products, so a valid polynomial identity in ~10
variables can come back `unknown`.  This module expands a term into a monomial dictionary with
Fraction coefficients and rebuilds a flat z3 polynomial; the rebuilt term (possibly the literal 0)
is what the solver is then asked about."""
from __future__ import annotations
import time
from fractions import Fraction
import z3


class TooBig(Exception):
    pass


def _mul(a, b, limit, deadline):
    r = {}
    for ma, ca_ in a.items():
        if time.time() > deadline:
            raise TooBig("time")
        for mb, cb in b.items():
            # merge sorted monomials (tuples of (var, exp))
            d = dict(ma)
            for v, e in mb:
                d[v] = d.get(v, 0) + e
            m = tuple(sorted(d.items()))
            c = r.get(m, 0) + ca_ * cb
            if c == 0:
                r.pop(m, None)
            else:
                r[m] = c
        if len(r) > limit:
            raise TooBig("terms")
    return r


def _add(a, b, sign=1):
    r = dict(a)
    for m, c in b.items():
        v = r.get(m, 0) + sign * c
        if v == 0:
            r.pop(m, None)
        else:
            r[m] = v
    return r


def expand(t, limit=400000, budget_s=60.0):
    """z3 term -> {monomial: Fraction}; raises TooBig / NotImplementedError"""
    deadline = time.time() + budget_s
    cache = {}
    stack = [t]
    while stack:
        e = stack[-1]
        i = e.get_id()
        if i in cache:
            stack.pop()
            continue
        if z3.is_rational_value(e) or z3.is_int_value(e):
            if z3.is_int_value(e):
                fr = Fraction(e.as_long())
            else:
                fr = Fraction(e.numerator_as_long(), e.denominator_as_long())
            cache[i] = {(): fr} if fr != 0 else {}
            stack.pop()
            continue
        if z3.is_const(e) and e.decl().kind() == z3.Z3_OP_UNINTERPRETED:
            cache[i] = {((e.decl().name(), 1),): Fraction(1)}
            stack.pop()
            continue
        ch = e.children()
        miss = [c for c in ch if c.get_id() not in cache]
        if miss:
            stack.extend(miss)
            continue
        a = [cache[c.get_id()] for c in ch]
        k = e.decl().kind()
        if k == z3.Z3_OP_ADD:
            r = a[0]
            for x in a[1:]:
                r = _add(r, x)
        elif k == z3.Z3_OP_SUB:
            r = a[0]
            for x in a[1:]:
                r = _add(r, x, -1)
        elif k == z3.Z3_OP_UMINUS:
            r = {m: -c for m, c in a[0].items()}
        elif k == z3.Z3_OP_MUL:
            r = a[0]
            for x in a[1:]:
                r = _mul(r, x, limit, deadline)
        elif k == z3.Z3_OP_TO_REAL:
            r = a[0]
        elif k == z3.Z3_OP_POWER:
            ex = a[1]
            if list(ex.keys()) != [()] or ex[()].denominator != 1 or ex[()] < 0:
                raise NotImplementedError("power")
            r = {(): Fraction(1)}
            for _ in range(int(ex[()])):
                r = _mul(r, a[0], limit, deadline)
        else:
            raise NotImplementedError(e.decl().name())
        if len(r) > limit:
            raise TooBig("terms")
        cache[i] = r
        stack.pop()
    return cache[t.get_id()]


def rebuild(p):
    """monomial dictionary -> flat z3 polynomial"""
    if not p:
        return z3.RealVal(0)
    terms = []
    for m, c in sorted(p.items()):
        t = z3.RatVal(c.numerator, c.denominator)
        for v, e in m:
            x = z3.Real(v)
            for _ in range(e):
                t = t * x
        terms.append(t)
    return z3.Sum(terms) if len(terms) > 1 else terms[0]


def normalize_eq(lhs_minus_rhs, budget_s=60.0):
    """returns (term, nterms) with term == lhs_minus_rhs as polynomials"""
    p = expand(lhs_minus_rhs, budget_s=budget_s)
    return rebuild(p), len(p)
