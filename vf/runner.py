"""Check driver: jobs -> records -> evidence / replay files / exit code."""
from __future__ import annotations
import os
import re
import sys
import json
import time
import importlib
import glob

from .solve import run_jobs

ROOT = os.path.dirname(os.path.dirname(os.path.abspath(__file__)))
EXIT_OK, EXIT_VIOLATION, EXIT_INCONCLUSIVE, EXIT_HARNESS = 0, 1, 2, 3


def load_known():
    p = os.path.join(ROOT, "known_findings.json")
    if not os.path.exists(p):
        return []
    with open(p) as fh:
        return json.load(fh).get("findings", [])


def match_known(known, pid, key):
    for k in known:
        if k.get("status", "open") != "open":
            continue  # 'fixed' entries suppress nothing
        if k["property"] == pid and re.fullmatch(k["match"], key):
            return k
    return None


def run_harness_job(modname, hname, seed, tier, shard=None):
    from .harness import run_harness
    mod = importlib.import_module(modname)
    h = mod.get_harness(hname, tier)
    return run_harness(h, seed=seed, tier=tier, shard=shard)


def harness_jobs(modname, hs, seed, tier):
    """one job per harness, or `h.shards` jobs for heavy ones (claims split round-robin)"""
    out = []
    for h in hs:
        n = getattr(h, "shards", 1)
        if n <= 1:
            out.append((h.name, run_harness_job, (modname, h.name, seed, tier)))
        else:
            for k in range(n):
                out.append((f"{h.name}#{k}", run_harness_job, (modname, h.name, seed, tier, (k, n))))
    return out


def main(pid, argv=None):
    argv = list(sys.argv[2:] if argv is None else argv)
    tier = os.environ.get("VERIF_TIER", "quick")
    seed = int(os.environ.get("VERIF_SEED", "0") or 0)
    replay_path = None
    only = None
    i = 0
    while i < len(argv):
        a = argv[i]
        if a == "--tier":
            tier = argv[i + 1]
            i += 2
        elif a == "--replay":
            replay_path = argv[i + 1]
            i += 2
        elif a == "--only":
            only = argv[i + 1]
            i += 2
        elif a == "--seed":
            seed = int(argv[i + 1])
            i += 2
        else:
            i += 1
    os.environ["VERIF_TIER_ACTIVE"] = tier
    modname = f"vf.props.{pid}"
    mod = importlib.import_module(modname)
    if replay_path:
        return do_replay(mod, pid, replay_path)
    t0 = time.time()
    jobs = mod.jobs(tier, seed)
    if only:
        jobs = [j for j in jobs if re.search(only, j[0])]
    verbose = os.environ.get("VERIF_VERBOSE")

    def progress(name, st, dt):
        if verbose:
            print(f"  [{st:7s}] {dt:7.1f}s {name}", flush=True)
    job_timeout = int(os.environ.get("VERIF_JOB_TIMEOUT", 0)) or getattr(mod, "JOB_TIMEOUT", {}).get(tier, 900)
    results = run_jobs(jobs, job_timeout=job_timeout, progress=progress)
    # ---- aggregate -------------------------------------------------------------------
    known = load_known()
    recs = []
    stats = []
    harness_errors = []
    for name, _, _ in jobs:
        st, res = results[name]
        if st == "ok":
            for r in res["records"]:
                r.setdefault("harness", name)
                if "#" in name and r["label"] in ("build", "reachability") and not name.endswith("#0"):
                    continue  # reported once by shard 0
                recs.append(r)
            stats.append(res["stats"])
        elif st == "timeout":
            recs.append(dict(label="job", status="unknown", harness=name, reason="job timeout"))
        else:
            harness_errors.append((name, res))
    if os.environ.get("VERIF_SLOW"):
        for r in sorted(recs, key=lambda r: -float(r.get("t") or 0))[:int(os.environ["VERIF_SLOW"])]:
            print(f"  slow {float(r.get('t') or 0):8.1f}s {r['status']:8s} {r['harness']}:{r['label']} @{r.get('cell')}")
    obligations = [r for r in recs if r["status"] in ("proved", "refuted", "unknown", "spurious", "crash")]
    proved = [r for r in recs if r["status"] == "proved"]
    unknown = [r for r in recs if r["status"] in ("unknown", "spurious")]
    vacuous = [r for r in recs if r["status"] == "vacuous"]
    viol = [r for r in recs if r["status"] in ("refuted", "crash")]
    for p in glob.glob(os.path.join(ROOT, "replays", f"{pid}-*.json")):
        os.remove(p)
    os.makedirs(os.path.join(ROOT, "replays"), exist_ok=True)
    new_viol = []
    known_hits = {}
    for r in viol:
        key = f"{r['harness']}:{r['label']}"
        # known findings are matched on harness:label@cell so that the same claim failing in a different branch
        # cell is still reported
        k = match_known(known, pid, key + "@" + str(r.get("cell", "")))
        if k is not None:
            known_hits.setdefault(k["id"], (k, []))[1].append(key)
        else:
            new_viol.append(r)
    lines = []
    for kid, (k, keys) in known_hits.items():
        lines.append(f"KNOWN-FINDING: property={pid} {k['what']} [{len(keys)} obligation(s), e.g. {keys[0]}]")
    # group new violations by harness+label-stem to keep the output readable; one replay file each
    nfile = 0
    by_h = {}
    for r in new_viol:
        by_h.setdefault(r["harness"], []).append(r)
    for hname, rs in by_h.items():
        nfile += 1
        r = rs[0]
        path = os.path.join(ROOT, "replays", f"{pid}-{nfile}.json")
        with open(path, "w") as fh:
            json.dump(dict(property=pid, harness=r["harness"], label=r["label"], cell=r.get("cell"),
                           replay=r.get("replay"), model=r.get("model"), detail=r.get("detail"),
                           trace=r.get("trace"), tier=tier,
                           other_failing_obligations=[x["label"] for x in rs[1:]][:100]), fh, indent=1, default=str)
        for x in rs:
            x["replay_file"] = path
        lines.append(f"VIOLATION property={pid} replay={path}  ({r['harness']}:{r['label']}"
                     + (f" and {len(rs) - 1} more obligations of this harness" if len(rs) > 1 else "") + ")")
    wall = time.time() - t0
    ev = mod.evidence(tier, seed, recs, stats) if hasattr(mod, "evidence") else {}
    level = getattr(mod, "LEVEL", "proof")
    samples = []
    for r in (proved[:3] + viol[:3] + unknown[:2]):
        samples.append({k: r.get(k) for k in ("harness", "label", "status", "t", "cell")})
    cov = dict(
        # obligations that fail exactly as recorded in known_findings.json are outside the claim and counted separately
        obligations=len(obligations) - (len(viol) - len(new_viol)), obligations_including_known_findings=len(obligations),
        discharged=len(proved),
        refuted_confirmed=len(viol), known_finding_obligations=len(viol) - len(new_viol),
        inconclusive=len(unknown), vacuous=len(vacuous),
        checker_cmd=f"./check {pid} --tier {tier}",
        trusted_base=getattr(mod, "TRUSTED", []),
        samples=samples,
        cells=sum(s.get("cells", 0) for s in stats),
        cells_outside_claim=sum(s.get("cells_skipped", 0) for s in stats),
        solver_queries=sum(s.get("queries", 0) for s in stats),
        solver_time_s=round(sum(s.get("solver_time", 0) for s in stats), 2),
        max_query_s=max([r.get("t", 0) or 0 for r in recs] + [0]),
        functions_encoded=[fn for s in stats for fn in s.get("functions", [])][:200],
        translator_validation_points=sum(s.get("validated_points", 0) for s in stats),
        resolutions={},
        harnesses=len(jobs),
        bounds=getattr(mod, "BOUNDS", {}).get(tier, getattr(mod, "BOUNDS", {})),
        explanation=getattr(mod, "EXPLANATION", ""),
        evaluations=len(obligations), distinct_nontrivial=len({(r['harness'], r['label'], r.get('cell')) for r in obligations}),
        rule="one obligation = (harness, branch cell, claim entry); distinct by that triple; every one is a solver query over all inputs of the cell",
    )
    for s in stats:
        for k, v in s.get("resolutions", {}).items():
            cov["resolutions"][k] = cov["resolutions"].get(k, 0) + v
    cross = {"checked": 0, "agree": 0, "disagree": 0, "no_answer": 0}
    cross_samples = []
    for s in stats:
        c = s.get("cross") or {}
        for k in cross:
            cross[k] += c.get(k, 0)
        cross_samples += c.get("samples", [])
    cov["second_solver_cvc5"] = cross
    if cross["disagree"]:
        harness_errors.append(("cross-check", f"z3 and cvc5 disagree on {cross['disagree']} obligation(s): {cross_samples[:3]}"))
    cov.update(ev)
    evidence = dict(property_id=pid, tier=tier, seed=seed, level=level, coverage=cov,
                    assumptions=getattr(mod, "ASSUMPTIONS", []), wall_s=round(wall, 2),
                    violations=len(new_viol),
                    violation_keys=sorted({f"{r['harness']}:{r['label']}@{r.get('cell', '')}" for r in viol})[:300],
                    inconclusive=[{k: r.get(k) for k in ("harness", "label", "status", "reason", "cell")} for r in unknown][:50],
                    harness_errors=[(n, str(m)[:500]) for n, m in harness_errors])
    os.makedirs(os.path.join(ROOT, "evidence"), exist_ok=True)
    with open(os.path.join(ROOT, "evidence", f"{pid}.json"), "w") as fh:
        json.dump(evidence, fh, indent=1, default=str)
    for ln in lines:
        print(ln)
    print(f"{pid} [{tier}] obligations={len(obligations)} proved={len(proved)} violations={len(new_viol)} "
          f"known={len(viol) - len(new_viol)} inconclusive={len(unknown)} vacuous={len(vacuous)} "
          f"harness_errors={len(harness_errors)} wall={wall:.1f}s")
    if harness_errors:
        for n, m in harness_errors:
            print(f"HARNESS-ERROR {n}: {str(m)[:2000]}")
    for r in unknown[:20]:
        print(f"INCONCLUSIVE {r['harness']}:{r['label']} {r.get('reason', '')} {r.get('replay', {}).get('reason', '') if isinstance(r.get('replay'), dict) else ''}")
    for r in vacuous[:20]:
        print(f"VACUOUS {r['harness']} cell={r.get('cell')}")
    if new_viol:
        return EXIT_VIOLATION
    if harness_errors or vacuous:
        return EXIT_HARNESS
    if unknown:
        return EXIT_INCONCLUSIVE
    return EXIT_OK


def do_replay(mod, pid, path):
    from .harness import replay as _replay
    with open(path) as fh:
        rp = json.load(fh)
    if not hasattr(mod, "custom_replay") and isinstance(rp.get("replay"), dict) and rp["replay"].get("call"):
        from .props import C20 as mod  # a CrossHair counterexample recorded by another property's check (C12:estimator_due)
    if hasattr(mod, "custom_replay"):
        bad, info = mod.custom_replay(rp)
        print(json.dumps(info, default=str)[:2000])
        if bad:
            print(f"VIOLATION property={pid} replay={path}")
            return 1
        print("replay: not reproduced on the current tree")
        return 0
    h = mod.get_harness(rp["harness"], rp.get("tier", "quick"))
    if rp.get("detail") and not rp.get("replay"):
        try:
            h.build()
            print(f"replay: build of {h.name} now succeeds")
            return 0
        except Exception as e:
            print(f"VIOLATION property={pid} replay={path}  (build crashes: {type(e).__name__}: {e})")
            return 1
    f_real = h.build_real() if hasattr(h, "build_real") else h.build()
    if hasattr(h, "build_real"):
        h.build()
    ctx, in_vals = h.make_ctx()
    from fractions import Fraction
    env = rp["replay"].get("env", {})
    model = {k: Fraction(v).limit_denominator(10 ** 30) for k, v in env.items()}
    r = _replay(h, f_real, in_vals, getattr(ctx, "aux", {}), None, rp["label"], model, ctx)
    print(json.dumps(r, default=str)[:2000])
    if r.get("confirmed"):
        print(f"VIOLATION property={pid} replay={path}")
        return 1
    print("replay: not reproduced on the current tree")
    return 0
