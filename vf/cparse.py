"""Front end B: parser for the straight-line C that CasADi's CodeGenerator emits -> the same SSA DAG
interface as vf.ir.IR (nodes / outputs), plus the exported tables (names, arities, sparsities)."""
from __future__ import annotations
import re
from .ir import Node

VAR = r"(?:a\d+|w\[\d+\]|w\d+)"
NUM = r"-?(?:\d+\.?\d*(?:[eE][+-]?\d+)?|\.\d+(?:[eE][+-]?\d+)?)"

BIN = {"+": "ADD", "-": "SUB", "*": "MUL", "/": "DIV", "<": "LT", "<=": "LE", "==": "EQ", "!=": "NE", "&&": "AND", "||": "OR"}
FUN1 = {"casadi_sq": "SQ", "sqrt": "SQRT", "sin": "SIN", "cos": "COS", "tan": "TAN", "asin": "ASIN", "acos": "ACOS",
        "atan": "ATAN", "casadi_fabs": "FABS", "fabs": "FABS", "casadi_sign": "SIGN", "exp": "EXP", "log": "LOG", "floor": "FLOOR",
        "ceil": "CEIL", "sinh": "SINH", "cosh": "COSH", "tanh": "TANH", "asinh": "ASINH", "acosh": "ACOSH", "atanh": "ATANH",
        "erf": "ERF", "casadi_log1p": "LOG1P", "casadi_expm1": "EXPM1"}
FUN2 = {"atan2": "ATAN2", "pow": "POW", "casadi_fmin": "FMIN", "casadi_fmax": "FMAX", "fmin": "FMIN", "fmax": "FMAX",
        "fmod": "FMOD", "remainder": "REMAINDER", "casadi_hypot": "HYPOT", "copysign": "COPYSIGN"}


class CParseError(Exception):
    pass


class CFunction:
    """one `static int casadi_fK(...)` body as an SSA DAG"""

    def __init__(self, name, sig, body_lines):
        self.name = name
        self.sig = sig
        self.nodes = []
        self.outputs = {}  # (i, k) -> node id
        self.n_instr = 0
        reg = {}

        def use(v):
            if v not in reg:
                raise CParseError(f"{name}: use of unassigned variable {v}")
            return reg[v]
        for ln in body_lines:
            s = ln.strip()
            if not s or s.startswith("casadi_real ") or s.startswith("return") or s.startswith("/*"):
                continue
            m = re.fullmatch(rf"if \(res\[(\d+)\]!=0\) res\[(\d+)\]\[(\d+)\]=({VAR});", s)
            if m:
                if m.group(1) != m.group(2):
                    raise CParseError(f"{name}: odd result store {s}")
                self.outputs[(int(m.group(1)), int(m.group(3)))] = use(m.group(4))
                self.n_instr += 1
                continue
            m = re.fullmatch(rf"({VAR})=(.*);", s)
            if not m:
                raise CParseError(f"{name}: cannot parse statement: {s}")
            lhs, rhs = m.group(1), m.group(2).strip()
            self.n_instr += 1
            nd = self._rhs(rhs, use)
            self.nodes.append(nd)
            reg[lhs] = len(self.nodes) - 1

    def _rhs(self, rhs, use):
        m = re.fullmatch(r"arg\[(\d+)\]\? arg\[(\d+)\]\[(\d+)\] : 0", rhs)
        if m:
            if m.group(1) != m.group(2):
                raise CParseError(f"odd input load {rhs}")
            return Node("INPUT", inp=(int(m.group(1)), int(m.group(3))))
        if re.fullmatch(NUM, rhs):
            return Node("CONST", const=float(rhs))
        if rhs in ("casadi_inf", "INFINITY"):
            return Node("CONST", const=float("inf"))
        if rhs in ("-casadi_inf", "-INFINITY"):
            return Node("CONST", const=float("-inf"))
        if rhs in ("casadi_nan", "NAN"):
            return Node("CONST", const=float("nan"))
        m = re.fullmatch(rf"\(({VAR})(\+|-|\*|/|<=|<|==|!=|&&|\|\|)({VAR})\)", rhs)
        if m:
            return Node(BIN[m.group(2)], (use(m.group(1)), use(m.group(3))))
        m = re.fullmatch(rf"\(-({VAR})\)", rhs)
        if m:
            return Node("NEG", (use(m.group(1)),))
        m = re.fullmatch(rf"\(!({VAR})\)", rhs)
        if m:
            return Node("NOT", (use(m.group(1)),))
        m = re.fullmatch(rf"\(({VAR})\?({VAR}):0\)", rhs)
        if m:
            return Node("IF_ELSE_ZERO", (use(m.group(1)), use(m.group(2))))
        m = re.fullmatch(rf"\(2\.\*({VAR})\)", rhs)
        if m:
            return Node("TWICE", (use(m.group(1)),))
        m = re.fullmatch(rf"\(1\./({VAR})\)", rhs)
        if m:
            return Node("INV", (use(m.group(1)),))
        m = re.fullmatch(rf"(\w+)\(({VAR})\)", rhs)
        if m and m.group(1) in FUN1:
            return Node(FUN1[m.group(1)], (use(m.group(2)),))
        m = re.fullmatch(rf"(\w+)\(({VAR}),({VAR})\)", rhs)
        if m and m.group(1) in FUN2:
            return Node(FUN2[m.group(1)], (use(m.group(2)), use(m.group(3))))
        m = re.fullmatch(rf"({VAR})", rhs)
        if m:
            return Node("ASSIGN", (use(m.group(1)),))
        raise CParseError(f"cannot parse expression: {rhs}")


class COutView:
    """adapter giving a CFunction the IR interface expected by vf.enc.evaluate"""

    def __init__(self, cf: CFunction, n_in, in_nnz, n_out, out_nnz):
        self.nodes = cf.nodes
        self.n_in, self.in_nnz, self.n_out, self.out_nnz = n_in, in_nnz, n_out, out_nnz
        self.outputs = [[cf.outputs.get((i, k)) for k in range(out_nnz[i])] for i in range(n_out)]
        self.name = cf.name
        self.n_instr = cf.n_instr


def decode_sparsity(t):
    """CasADi compressed sparsity table -> (nrow, ncol, colind, rows); the 3-entry form {nrow, ncol, 1} is dense"""
    nrow, ncol = t[0], t[1]
    if len(t) == 3 and t[2] == 1:
        return (nrow, ncol, tuple(nrow * j for j in range(ncol + 1)), tuple(i for _ in range(ncol) for i in range(nrow)))
    colind = tuple(t[2:2 + ncol + 1])
    rows = tuple(t[2 + ncol + 1:2 + ncol + 1 + colind[-1]])
    return (nrow, ncol, colind, rows)


class CFile:
    def __init__(self, text):
        self.text = text
        self.bodies = {}  # internal id (casadi_fK) -> CFunction
        self.exported = {}  # public name -> internal id
        self.tables = {}  # casadi_sK -> list of ints
        self.meta = {}  # public name -> dict(n_in, n_out, sp_in, sp_out, name_in, name_out)
        self._parse()

    def _parse(self):
        t = self.text
        for m in re.finditer(r"static const casadi_int (casadi_s\d+)\[\d+\] =\s*\{([^}]*)\};", t):
            self.tables[m.group(1)] = [int(x) for x in m.group(2).split(",") if x.strip()]
        for m in re.finditer(r"/\* (\w+):(\(.*?\)->\(.*?\)) \*/\s*\nstatic int (casadi_f\d+)\(const casadi_real\*\* arg, casadi_real\*\* res, "
                             r"casadi_int\* iw, casadi_real\* w, int mem\) \{\n(.*?)\n\}\n", t, re.S):
            name, sig, fid, body = m.group(1), m.group(2), m.group(3), m.group(4)
            self.bodies[fid] = CFunction(name, sig, body.split("\n"))
        for m in re.finditer(r"(?:CASADI_SYMBOL_EXPORT )?int (\w+)\(const casadi_real\*\* arg, casadi_real\*\* res, casadi_int\* iw, "
                             r"casadi_real\* w, int mem\)\s*\{\s*return (casadi_f\d+)\(arg, res, iw, w, mem\);\s*\}", t):
            self.exported[m.group(1)] = m.group(2)
        for name in self.exported:
            md = {}
            for key in ("n_in", "n_out"):
                m = re.search(rf"casadi_int {name}_{key}\(void\) \{{ return (\d+);\s*\}}", t)
                md[key] = int(m.group(1)) if m else None
            for key in ("sparsity_in", "sparsity_out"):
                m = re.search(rf"const casadi_int\* {name}_{key}\(casadi_int i\) \{{\s*switch \(i\) \{{(.*?)default", t, re.S)
                md[key] = [self.tables[x] for x in re.findall(r"case \d+: return (casadi_s\d+);", m.group(1))] if m else None
            for key in ("name_in", "name_out"):
                m = re.search(rf"const char\* {name}_{key}\(casadi_int i\) \{{\s*switch \(i\) \{{(.*?)default", t, re.S)
                md[key] = re.findall(r'case \d+: return "(\w+)";', m.group(1)) if m else None
            self.meta[name] = md
