"""C20 harness functions for CrossHair (front end D): they drive the *real* uros classes and the real
AttitudeEstimator node; only the numeric kernels (CasADi functions) are replaced by recording stubs and the
status/attitude messages by dict-backed stand-ins so that symbolic times are not realised by NumPy stores.

Every property is the postcondition of a function whose inputs CrossHair makes symbolic; each has a
reachability twin (`*_twin`, postcondition False) that must be refuted."""
from __future__ import annotations
from typing import List, Tuple

import numpy as np

import cyecca.sim.uros as uros
import cyecca.sim.msgs as msgs
from cyecca.estimate.attitude.estimator import AttitudeEstimator

TOPICS = ["a", "b", "c"]
TYPES = [msgs.Imu, msgs.Mag, msgs.Attitude]


def _bus(sub_topics: List[int], pub_seq: List[int]) -> Tuple[list, list]:
    core = uros.Core()
    pubs = [uros.Publisher(core, TOPICS[k], TYPES[k]) for k in range(3)]
    log = []
    for sid, tk in enumerate(sub_topics):
        # select the topic with if/elif: indexing a list of classes with a symbolic int defeats CrossHair
        if tk == 0:
            uros.Subscriber(core, "a", msgs.Imu, lambda m, sid=sid: log.append((sid, m.tag)))
        elif tk == 1:
            uros.Subscriber(core, "b", msgs.Mag, lambda m, sid=sid: log.append((sid, m.tag)))
        else:
            uros.Subscriber(core, "c", msgs.Attitude, lambda m, sid=sid: log.append((sid, m.tag)))
    expected = []
    for n, tk in enumerate(pub_seq):
        if tk == 0:
            m = msgs.Imu()
            m.tag = n
            before = len(log)
            pubs[0].publish(m)
        elif tk == 1:
            m = msgs.Mag()
            m.tag = n
            before = len(log)
            pubs[1].publish(m)
        else:
            m = msgs.Attitude()
            m.tag = n
            before = len(log)
            pubs[2].publish(m)
        # synchronous: everything for this publication is logged before publish returns
        for sid, st in enumerate(sub_topics):
            if (st if st in (0, 1) else 2) == (tk if tk in (0, 1) else 2):
                expected.append((sid, n))
        if len(log) != len(expected):
            return log, expected + [("late", n)]
    return log, expected


def bus_delivery(sub_topics: List[int], pub_seq: List[int]) -> bool:
    """
    every publication reaches exactly the subscribers of its topic, once, in publication and subscription order
    pre: len(sub_topics) <= 2 and len(pub_seq) <= 3
    pre: all(0 <= t <= 2 for t in sub_topics) and all(0 <= t <= 2 for t in pub_seq)
    post: _ == True
    """
    log, expected = _bus(sub_topics, pub_seq)
    return log == expected


def bus_delivery_twin(sub_topics: List[int], pub_seq: List[int]) -> bool:
    """
    pre: len(sub_topics) <= 2 and len(pub_seq) <= 3
    pre: all(0 <= t <= 2 for t in sub_topics) and all(0 <= t <= 2 for t in pub_seq)
    post: _ == False
    """
    log, expected = _bus(sub_topics, pub_seq)
    return log == expected and len(log) >= 2


def bus_type_check(pub_topic: int, msg_kind: int, with_subscribers: bool = True) -> bool:
    """
    a message of the wrong type is rejected with ValueError and delivered to nobody, whether or not the topic
    has subscribers
    pre: 0 <= pub_topic <= 2 and 0 <= msg_kind <= 2
    post: _ == True
    """
    core = uros.Core()
    pubs = [uros.Publisher(core, TOPICS[k], TYPES[k]) for k in range(3)]
    got = []
    if with_subscribers:
        for k in range(3):
            uros.Subscriber(core, TOPICS[k], TYPES[k], lambda m, k=k: got.append(k))
    m = msgs.Imu() if msg_kind == 0 else (msgs.Mag() if msg_kind == 1 else msgs.Attitude())
    p = pubs[0] if pub_topic == 0 else (pubs[1] if pub_topic == 1 else pubs[2])
    try:
        p.publish(m)
        raised = False
    except ValueError:
        raised = True
    if pub_topic == msg_kind:
        return (not raised) and got == ([pub_topic] if with_subscribers else [])
    return raised and got == []


def bus_type_check_twin(pub_topic: int, msg_kind: int, with_subscribers: bool = True) -> bool:
    """
    pre: 0 <= pub_topic <= 2 and 0 <= msg_kind <= 2
    post: _ == False
    """
    return bus_type_check(pub_topic, msg_kind, with_subscribers) and pub_topic != msg_kind and not with_subscribers


class _Node:
    def __init__(self, core, name, follows: bool, n_params: int):
        self.params = [uros.Param(core, f"{name}/p{k}", k, "f8") for k in range(n_params)]
        if follows:
            uros.Subscriber(core, "params", msgs.Params, self.cb)

    def cb(self, msg):
        for p in self.params:
            p.update()


def _params(idxs: List[int], bits: List[bool], follows2: bool):
    # the value written is a concrete int on every path (symbolic bool -> branch), so that the NumPy store inside
    # msgs.Params does not have to realise a symbolic number
    updates = [(i, (3 if b else 7)) for i, b in zip(idxs, bits)]
    core = uros.Core()
    n1 = _Node(core, "n1", True, 2)
    n2 = _Node(core, "n2", follows2, 1)
    core.init_params()
    names = ["n1/p0", "n1/p1", "n2/p0"]
    model = {"n1/p0": 0, "n1/p1": 1, "n2/p0": 0}
    seen2 = 0
    ok = True
    for (idx, val) in updates:
        name = names[0] if idx == 0 else (names[1] if idx == 1 else names[2])
        core.set_param(name, val)
        model[name] = val
        if follows2:
            seen2 = model["n2/p0"]
        ok = ok and n1.params[0].get() == model["n1/p0"] and n1.params[1].get() == model["n1/p1"]
        ok = ok and n2.params[0].get() == seen2
        ok = ok and core.get_param(name) == val
    return ok


def param_propagation(idxs: List[int], vals: List[bool], follows2: bool) -> bool:
    """
    after set_param + broadcast every node following the parameter topic sees the value; a node that does not
    follow it keeps its old value
    pre: len(idxs) == len(vals) and len(idxs) <= 3
    pre: all(0 <= i <= 2 for i in idxs)
    post: _ == True
    """
    return _params(idxs, vals, follows2)


def param_propagation_twin(idxs: List[int], vals: List[bool], follows2: bool) -> bool:
    """
    pre: len(idxs) == len(vals) and len(idxs) <= 3
    pre: all(0 <= i <= 2 for i in idxs)
    post: _ == False
    """
    return _params(idxs, vals, follows2) and len(idxs) >= 2


# ---- estimator scheduling -----------------------------------------------------------------------------------------

class _DictMsg:
    """stand-in for a NumPy structured message: 'time'-like scalars stay Python objects"""

    def __init__(self, **kw):
        self.data = dict(kw)


class _StatusMsg(msgs.EstimatorStatus):
    def __init__(self):
        self.data = {k: (np.zeros(24) if k in ("x", "W") else (np.zeros(3) if k.startswith("r_") else 0.0))
                     for k in msgs.EstimatorStatus.dtype.names}


class _AttMsg(msgs.Attitude):
    def __init__(self):
        self.data = {"time": 0.0, "q": np.zeros(4), "r": np.zeros(3), "b": np.zeros(3), "omega": np.zeros(3)}


def _estimator(initialize: bool):
    core = uros.Core()
    rec = {"predict_dt": [], "accel_t": [], "mag_t": [], "now": [0.0]}
    x0 = np.zeros((6, 1))
    W0 = np.eye(6)

    def constants():
        return {"x0": x0, "W0": W0}

    def predict(t, x, W, omega, std_gyro, sn, dt):
        rec["predict_dt"].append(dt)
        rec["now"][0] = t
        return x, W

    def get_state(x):
        return np.array([1.0, 0, 0, 0]), np.zeros(3), np.zeros(3)

    def correct_accel(x, W, y, g, omega, s1, s2, beta):
        rec["accel_t"].append(rec["now"][0])
        return x, W, 0.0, np.zeros((2, 1)), np.zeros((2, 1)), 0.0

    def correct_mag(x, W, y, decl, std, beta):
        rec["mag_t"].append(rec["mag_now"])
        return x, W, 0.0, np.zeros((1, 1)), np.zeros((1, 1)), 0.0

    def init(g_b, B_b, decl):
        return x0, 0

    eqs = {"constants": constants, "predict": predict, "get_state": get_state, "correct_accel": correct_accel,
           "correct_mag": correct_mag, "initialize": init}
    est = AttitudeEstimator(core, "est", eqs, initialize)
    # distinct minimum periods, so that a correction gated by the wrong parameter is visible
    est.dt_min_accel.value = 0.01
    est.dt_min_mag.value = 0.05
    core.init_params()
    est.msg_est_status = _StatusMsg()
    est.msg_att = _AttMsg()
    return core, est, rec


def _schedule(kinds: List[bool], times: List[float], initialize: bool):
    core, est, rec = _estimator(initialize)
    dtmin_a = est.dt_min_accel.get()
    dtmin_m = est.dt_min_mag.get()
    eps = est.time_eps
    for is_imu, t in zip(kinds, times):
        if is_imu:
            est.imu_callback(_DictMsg(time=t, gyro=np.zeros(3), accel=np.array([0.0, 0, 9.8])))
        else:
            rec["mag_now"] = t
            est.mag_callback(_DictMsg(time=t, mag=np.array([1.0, 0, 0])))
    ok = all(dt > 0 for dt in rec["predict_dt"])
    a = rec["accel_t"]
    ok = ok and all(a[k + 1] - a[k] >= dtmin_a - eps for k in range(len(a) - 1))
    m = rec["mag_t"]
    ok = ok and all(m[k + 1] - m[k] >= dtmin_m - eps for k in range(len(m) - 1))
    return ok, rec


def estimator_schedule(kinds: List[bool], times: List[float], initialize: bool) -> bool:
    """
    never predicts with dt <= 0; accel / mag corrections at least dt_min - 1 ms apart, for any arrival times
    pre: len(kinds) == len(times) and len(times) <= 3
    pre: all(0.0 <= t <= 100.0 for t in times)
    post: _ == True
    """
    ok, rec = _schedule(kinds, times, initialize)
    return ok


def estimator_schedule_twin(kinds: List[bool], times: List[float], initialize: bool) -> bool:
    """
    pre: len(kinds) == len(times) and len(times) <= 3
    pre: all(0.0 <= t <= 100.0 for t in times)
    post: _ == False
    """
    ok, rec = _schedule(kinds, times, initialize)
    return ok and len(rec["predict_dt"]) >= 2 and len(rec["accel_t"]) >= 2


def _due(kinds: List[bool], times: List[float]):
    """(C12, rate settings) a due correction is not skipped: once initialised, an IMU sample with dt > 0 that arrives at
    least dt_min_accel - 1 ms after the previous accelerometer correction is used for a correction at that very sample;
    likewise for magnetometer samples and dt_min_mag"""
    core, est, rec = _estimator(False)
    dtmin_a = est.dt_min_accel.get()
    dtmin_m = est.dt_min_mag.get()
    eps = est.time_eps
    last_a = 0.0
    last_m = 0.0
    last_imu = 0.0
    ok = True
    for is_imu, t in zip(kinds, times):
        if is_imu:
            n_before = len(rec["accel_t"])
            est.imu_callback(_DictMsg(time=t, gyro=np.zeros(3), accel=np.array([0.0, 0, 9.8])))
            ran = len(rec["accel_t"]) > n_before
            if t - last_imu > 0 and t - last_a >= dtmin_a - eps:
                ok = ok and ran
            if ran:
                last_a = t
            last_imu = t
        else:
            rec["mag_now"] = t
            n_before = len(rec["mag_t"])
            est.mag_callback(_DictMsg(time=t, mag=np.array([1.0, 0, 0])))
            ran = len(rec["mag_t"]) > n_before
            if t - last_m >= dtmin_m - eps:
                ok = ok and ran
            if ran:
                last_m = t
    return ok, rec


def estimator_due(kinds: List[bool], times: List[float]) -> bool:
    """
    a due accelerometer / magnetometer correction is never skipped, for any arrival pattern
    pre: len(kinds) == len(times) and len(times) <= 3
    pre: all(0.0 <= t <= 100.0 for t in times)
    post: _ == True
    """
    ok, rec = _due(kinds, times)
    return ok


def estimator_due_twin(kinds: List[bool], times: List[float]) -> bool:
    """
    pre: len(kinds) == len(times) and len(times) <= 3
    pre: all(0.0 <= t <= 100.0 for t in times)
    post: _ == False
    """
    ok, rec = _due(kinds, times)
    return ok and len(rec["accel_t"]) >= 2 and len(rec["predict_dt"]) >= 3


# ---- logger ---------------------------------------------------------------------------------------------------------

class _ImuMsg(msgs.Imu):
    def __init__(self, **kw):
        self.data = dict(kw)


class _MagMsg(msgs.Mag):
    def __init__(self, **kw):
        self.data = dict(kw)


class _ParamsMsg(msgs.Params):
    """dict-backed parameter message: a symbolic period is not realised by a NumPy store"""

    def __init__(self, core):
        self.data = {name: p.value for name, p in core._declared_params.items()}


def _logger(gaps: List[float], acts: List[int], vals: List[float], t_end: float = 0.05):
    """Real Core (simpy environment), real Publisher/Subscriber/Param/Logger.  A driver process waits gaps[k] and
    then publishes on topic a (acts[k]==0), on topic b (==1) or changes the logging period to vals[k] (==2).
    The logger's latest-data record and the parameter message are dict-backed stand-ins so that times stay
    symbolic; everything else (event queue, callbacks, Param.update, Logger.run) is the code under test."""
    import copy
    import simpy
    core = uros.Core()
    pub_a = uros.Publisher(core, "a", msgs.Imu)
    pub_b = uros.Publisher(core, "b", msgs.Mag)
    logger = uros.Logger(core)
    logger.dt.value = 0.02
    core.init_params()
    core._params = _ParamsMsg(core)
    logger.data_latest = _DictMsg(time=None, a=None, b=None, params=None)
    latest = {"a": None, "b": None, "params": None}
    snaps = []

    class _Rows(list):
        def append(self, row):
            list.append(self, row)
            snaps.append((logger.dt.get(), dict(latest)))

    logger.data_list = _Rows()

    def driver():
        n = 0
        for g, a, v in zip(gaps, acts, vals):
            yield simpy.Timeout(core, g)
            n += 1
            if a == 0:
                m = _ImuMsg(time=core.now, tag=n)
                latest["a"] = dict(m.data)
                pub_a.publish(m)
            elif a == 1:
                m = _MagMsg(time=core.now, tag=n)
                latest["b"] = dict(m.data)
                pub_b.publish(m)
            else:
                latest["params"] = "set%d" % n
                core.set_param("logger/dt", v)

    simpy.Process(core, driver())
    core.run(until=t_end)
    rows = list(logger.data_list)
    ok = len(rows) >= 1 and rows[0]["time"] == 0
    for k in range(len(rows) - 1):
        # one row per logging period (the period in force when the previous row was written); time non-decreasing
        ok = ok and rows[k + 1]["time"] == rows[k]["time"] + snaps[k][0] and rows[k + 1]["time"] >= rows[k]["time"]
    # no row is missing at the end of the run
    ok = ok and rows[-1]["time"] + snaps[-1][0] >= t_end
    for k, row in enumerate(rows):
        # every row holds the latest message of every topic at the time it was written
        want = snaps[k][1]
        ok = ok and row["a"] == want["a"] and row["b"] == want["b"]
        if want["params"] is None:
            ok = ok and row["params"] is not None and row["params"]["logger/dt"] == 0.02
        else:
            ok = ok and row["params"]["logger/dt"] == snaps[k][0]
    return ok, rows


def logger_rows(gaps: List[float], acts: List[int], vals: List[float]) -> bool:
    """
    one row per logging period in force, starting at t=0, none missing, each with the latest message of every topic
    pre: len(gaps) == len(acts) == len(vals) and len(gaps) <= 1
    pre: all(0.0 <= g <= 0.03 for g in gaps) and all(0 <= a <= 2 for a in acts)
    pre: all(0.01 <= v <= 0.04 for v in vals)
    post: _ == True
    """
    ok, rows = _logger(gaps, acts, vals)
    return ok


def logger_rows_twin(gaps: List[float], acts: List[int], vals: List[float]) -> bool:
    """
    pre: len(gaps) == len(acts) == len(vals) and len(gaps) <= 1
    pre: all(0.0 <= g <= 0.03 for g in gaps) and all(0 <= a <= 2 for a in acts)
    pre: all(0.01 <= v <= 0.04 for v in vals)
    post: _ == False
    """
    ok, rows = _logger(gaps, acts, vals)
    return ok and len(rows) >= 3 and len(gaps) == 1 and acts[0] == 2 and vals[0] != 0.02


# ---- larger bounds (thorough tier) -------------------------------------------------------------------------------

def bus_delivery_big(sub_topics: List[int], pub_seq: List[int]) -> bool:
    """
    pre: len(sub_topics) <= 3 and len(pub_seq) <= 4
    pre: all(0 <= t <= 2 for t in sub_topics) and all(0 <= t <= 2 for t in pub_seq)
    post: _ == True
    """
    log, expected = _bus(sub_topics, pub_seq)
    return log == expected


def bus_delivery_big_twin(sub_topics: List[int], pub_seq: List[int]) -> bool:
    """
    pre: len(sub_topics) <= 3 and len(pub_seq) <= 4
    pre: all(0 <= t <= 2 for t in sub_topics) and all(0 <= t <= 2 for t in pub_seq)
    post: _ == False
    """
    log, expected = _bus(sub_topics, pub_seq)
    return log == expected and len(log) >= 2


def estimator_schedule_big(kinds: List[bool], times: List[float], initialize: bool) -> bool:
    """
    pre: len(kinds) == len(times) and len(times) <= 4
    pre: all(0.0 <= t <= 100.0 for t in times)
    post: _ == True
    """
    ok, rec = _schedule(kinds, times, initialize)
    return ok


def estimator_schedule_big_twin(kinds: List[bool], times: List[float], initialize: bool) -> bool:
    """
    pre: len(kinds) == len(times) and len(times) <= 4
    pre: all(0.0 <= t <= 100.0 for t in times)
    post: _ == False
    """
    ok, rec = _schedule(kinds, times, initialize)
    return ok and len(rec["predict_dt"]) >= 2 and len(rec["accel_t"]) >= 2


def logger_rows_big(gaps: List[float], acts: List[int], vals: List[float]) -> bool:
    """
    pre: len(gaps) == len(acts) == len(vals) and len(gaps) <= 2
    pre: all(0.0 <= g <= 0.03 for g in gaps) and all(0 <= a <= 2 for a in acts)
    pre: all(0.01 <= v <= 0.04 for v in vals)
    post: _ == True
    """
    ok, rows = _logger(gaps, acts, vals)
    return ok


def logger_rows_big_twin(gaps: List[float], acts: List[int], vals: List[float]) -> bool:
    """
    pre: len(gaps) == len(acts) == len(vals) and len(gaps) <= 2
    pre: all(0.0 <= g <= 0.03 for g in gaps) and all(0 <= a <= 2 for a in acts)
    pre: all(0.01 <= v <= 0.04 for v in vals)
    post: _ == False
    """
    ok, rows = _logger(gaps, acts, vals)
    return ok and len(rows) >= 3 and len(gaps) == 2 and acts[0] == 2 and vals[0] != 0.02


def logger_two_period_changes(gaps: List[float], vals: List[float]) -> bool:
    """
    thorough tier: two successive changes of the logging period at arbitrary instants
    pre: len(gaps) == 2 and len(vals) == 2
    pre: all(0.0 <= g <= 0.03 for g in gaps) and all(0.01 <= v <= 0.04 for v in vals)
    post: _ == True
    """
    ok, rows = _logger(gaps, [2, 2], vals)
    return ok


def logger_two_period_changes_twin(gaps: List[float], vals: List[float]) -> bool:
    """
    pre: len(gaps) == 2 and len(vals) == 2
    pre: all(0.0 <= g <= 0.03 for g in gaps) and all(0.01 <= v <= 0.04 for v in vals)
    post: _ == False
    """
    ok, rows = _logger(gaps, [2, 2], vals)
    return ok and len(rows) >= 3 and vals[0] != 0.02 and vals[1] != vals[0]
