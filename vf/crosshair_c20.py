"""C20 harness functions for CrossHair (front end D): they drive the *real* uros classes and the real
AttitudeEstimator node; only the numeric kernels (CasADi functions) are replaced by recording stubs and the
status/attitude messages by dict-backed stand-ins so that symbolic times are not realised by NumPy stores.

Every property is the postcondition of a function whose inputs CrossHair makes symbolic; each has a
reachability twin (`*_twin`, postcondition False) that must be refuted."""
from __future__ import annotations
from typing import List, Tuple

import numpy as np

import cyecca.sim.uros as uros
import cyecca.sim.msgs as msgs
from cyecca.estimate.attitude.estimator import AttitudeEstimator

TOPICS = ["a", "b", "c"]
TYPES = [msgs.Imu, msgs.Mag, msgs.Attitude]


def _bus(sub_topics: List[int], pub_seq: List[int]) -> Tuple[list, list]:
    core = uros.Core()
    pubs = [uros.Publisher(core, TOPICS[k], TYPES[k]) for k in range(3)]
    log = []
    for sid, tk in enumerate(sub_topics):
        # select the topic with if/elif: indexing a list of classes with a symbolic int defeats CrossHair
        if tk == 0:
            uros.Subscriber(core, "a", msgs.Imu, lambda m, sid=sid: log.append((sid, m.tag)))
        elif tk == 1:
            uros.Subscriber(core, "b", msgs.Mag, lambda m, sid=sid: log.append((sid, m.tag)))
        else:
            uros.Subscriber(core, "c", msgs.Attitude, lambda m, sid=sid: log.append((sid, m.tag)))
    expected = []
    for n, tk in enumerate(pub_seq):
        if tk == 0:
            m = msgs.Imu()
            m.tag = n
            before = len(log)
            pubs[0].publish(m)
        elif tk == 1:
            m = msgs.Mag()
            m.tag = n
            before = len(log)
            pubs[1].publish(m)
        else:
            m = msgs.Attitude()
            m.tag = n
            before = len(log)
            pubs[2].publish(m)
        # synchronous: everything for this publication is logged before publish returns
        for sid, st in enumerate(sub_topics):
            if (st if st in (0, 1) else 2) == (tk if tk in (0, 1) else 2):
                expected.append((sid, n))
        if len(log) != len(expected):
            return log, expected + [("late", n)]
    return log, expected


def bus_delivery(sub_topics: List[int], pub_seq: List[int]) -> bool:
    """
    every publication reaches exactly the subscribers of its topic, once, in publication and subscription order
    pre: len(sub_topics) <= 2 and len(pub_seq) <= 3
    pre: all(0 <= t <= 2 for t in sub_topics) and all(0 <= t <= 2 for t in pub_seq)
    post: _ == True
    """
    log, expected = _bus(sub_topics, pub_seq)
    return log == expected


def bus_delivery_twin(sub_topics: List[int], pub_seq: List[int]) -> bool:
    """
    pre: len(sub_topics) <= 2 and len(pub_seq) <= 3
    pre: all(0 <= t <= 2 for t in sub_topics) and all(0 <= t <= 2 for t in pub_seq)
    post: _ == False
    """
    log, expected = _bus(sub_topics, pub_seq)
    return log == expected and len(log) >= 2


def bus_type_check(pub_topic: int, msg_kind: int, with_subscribers: bool = True) -> bool:
    """
    a message of the wrong type is rejected with ValueError and delivered to nobody, whether or not the topic
    has subscribers
    pre: 0 <= pub_topic <= 2 and 0 <= msg_kind <= 2
    post: _ == True
    """
    core = uros.Core()
    pubs = [uros.Publisher(core, TOPICS[k], TYPES[k]) for k in range(3)]
    got = []
    if with_subscribers:
        for k in range(3):
            uros.Subscriber(core, TOPICS[k], TYPES[k], lambda m, k=k: got.append(k))
    m = msgs.Imu() if msg_kind == 0 else (msgs.Mag() if msg_kind == 1 else msgs.Attitude())
    p = pubs[0] if pub_topic == 0 else (pubs[1] if pub_topic == 1 else pubs[2])
    try:
        p.publish(m)
        raised = False
    except ValueError:
        raised = True
    if pub_topic == msg_kind:
        return (not raised) and got == ([pub_topic] if with_subscribers else [])
    return raised and got == []


def bus_type_check_twin(pub_topic: int, msg_kind: int, with_subscribers: bool = True) -> bool:
    """
    pre: 0 <= pub_topic <= 2 and 0 <= msg_kind <= 2
    post: _ == False
    """
    return bus_type_check(pub_topic, msg_kind, with_subscribers) and pub_topic != msg_kind and not with_subscribers


class _Node:
    def __init__(self, core, name, follows: bool, n_params: int):
        self.params = [uros.Param(core, f"{name}/p{k}", k, "f8") for k in range(n_params)]
        if follows:
            uros.Subscriber(core, "params", msgs.Params, self.cb)

    def cb(self, msg):
        for p in self.params:
            p.update()


def _params(idxs: List[int], bits: List[bool], follows2: bool):
    # the value written is a concrete int on every path (symbolic bool -> branch), so that the NumPy store inside
    # msgs.Params does not have to realise a symbolic number
    updates = [(i, (3 if b else 7)) for i, b in zip(idxs, bits)]
    core = uros.Core()
    n1 = _Node(core, "n1", True, 2)
    n2 = _Node(core, "n2", follows2, 1)
    core.init_params()
    names = ["n1/p0", "n1/p1", "n2/p0"]
    model = {"n1/p0": 0, "n1/p1": 1, "n2/p0": 0}
    seen2 = 0
    ok = True
    for (idx, val) in updates:
        name = names[0] if idx == 0 else (names[1] if idx == 1 else names[2])
        core.set_param(name, val)
        model[name] = val
        if follows2:
            seen2 = model["n2/p0"]
        ok = ok and n1.params[0].get() == model["n1/p0"] and n1.params[1].get() == model["n1/p1"]
        ok = ok and n2.params[0].get() == seen2
        ok = ok and core.get_param(name) == val
    return ok


def param_propagation(idxs: List[int], vals: List[bool], follows2: bool) -> bool:
    """
    after set_param + broadcast every node following the parameter topic sees the value; a node that does not
    follow it keeps its old value
    pre: len(idxs) == len(vals) and len(idxs) <= 3
    pre: all(0 <= i <= 2 for i in idxs)
    post: _ == True
    """
    return _params(idxs, vals, follows2)


def param_propagation_twin(idxs: List[int], vals: List[bool], follows2: bool) -> bool:
    """
    pre: len(idxs) == len(vals) and len(idxs) <= 3
    pre: all(0 <= i <= 2 for i in idxs)
    post: _ == False
    """
    return _params(idxs, vals, follows2) and len(idxs) >= 2


# ---- estimator scheduling -----------------------------------------------------------------------------------------

class _DictMsg:
    """stand-in for a NumPy structured message: 'time'-like scalars stay Python objects"""

    def __init__(self, **kw):
        self.data = dict(kw)


class _StatusMsg(msgs.EstimatorStatus):
    def __init__(self):
        self.data = {k: (np.zeros(24) if k in ("x", "W") else (np.zeros(3) if k.startswith("r_") else 0.0))
                     for k in msgs.EstimatorStatus.dtype.names}


class _AttMsg(msgs.Attitude):
    def __init__(self):
        self.data = {"time": 0.0, "q": np.zeros(4), "r": np.zeros(3), "b": np.zeros(3), "omega": np.zeros(3)}


def _estimator(initialize: bool):
    core = uros.Core()
    rec = {"predict_dt": [], "accel_t": [], "mag_t": [], "now": [0.0]}
    x0 = np.zeros((6, 1))
    W0 = np.eye(6)

    def constants():
        return {"x0": x0, "W0": W0}

    def predict(t, x, W, omega, std_gyro, sn, dt):
        rec["predict_dt"].append(dt)
        rec["now"][0] = t
        return x, W

    def get_state(x):
        return np.array([1.0, 0, 0, 0]), np.zeros(3), np.zeros(3)

    def correct_accel(x, W, y, g, omega, s1, s2, beta):
        rec["accel_t"].append(rec["now"][0])
        return x, W, 0.0, np.zeros((2, 1)), np.zeros((2, 1)), 0.0

    def correct_mag(x, W, y, decl, std, beta):
        rec["mag_t"].append(rec["mag_now"])
        return x, W, 0.0, np.zeros((1, 1)), np.zeros((1, 1)), 0.0

    def init(g_b, B_b, decl):
        return x0, 0

    eqs = {"constants": constants, "predict": predict, "get_state": get_state, "correct_accel": correct_accel,
           "correct_mag": correct_mag, "initialize": init}
    est = AttitudeEstimator(core, "est", eqs, initialize)
    # distinct minimum periods, so that a correction gated by the wrong parameter is visible
    est.dt_min_accel.value = 0.01
    est.dt_min_mag.value = 0.05
    core.init_params()
    est.msg_est_status = _StatusMsg()
    est.msg_att = _AttMsg()
    return core, est, rec


def _schedule(kinds: List[bool], times: List[float], initialize: bool):
    core, est, rec = _estimator(initialize)
    dtmin_a = est.dt_min_accel.get()
    dtmin_m = est.dt_min_mag.get()
    eps = est.time_eps
    for is_imu, t in zip(kinds, times):
        if is_imu:
            est.imu_callback(_DictMsg(time=t, gyro=np.zeros(3), accel=np.array([0.0, 0, 9.8])))
        else:
            rec["mag_now"] = t
            est.mag_callback(_DictMsg(time=t, mag=np.array([1.0, 0, 0])))
    ok = all(dt > 0 for dt in rec["predict_dt"])
    a = rec["accel_t"]
    ok = ok and all(a[k + 1] - a[k] >= dtmin_a - eps for k in range(len(a) - 1))
    m = rec["mag_t"]
    ok = ok and all(m[k + 1] - m[k] >= dtmin_m - eps for k in range(len(m) - 1))
    return ok, rec


def estimator_schedule(kinds: List[bool], times: List[float], initialize: bool) -> bool:
    """
    never predicts with dt <= 0; accel / mag corrections at least dt_min - 1 ms apart, for any arrival times
    pre: len(kinds) == len(times) and len(times) <= 3
    pre: all(0.0 <= t <= 100.0 for t in times)
    post: _ == True
    """
    ok, rec = _schedule(kinds, times, initialize)
    return ok


def estimator_schedule_twin(kinds: List[bool], times: List[float], initialize: bool) -> bool:
    """
    pre: len(kinds) == len(times) and len(times) <= 3
    pre: all(0.0 <= t <= 100.0 for t in times)
    post: _ == False
    """
    ok, rec = _schedule(kinds, times, initialize)
    return ok and len(rec["predict_dt"]) >= 2 and len(rec["accel_t"]) >= 2


# ---- larger bounds (thorough tier) -------------------------------------------------------------------------------

def bus_delivery_big(sub_topics: List[int], pub_seq: List[int]) -> bool:
    """
    pre: len(sub_topics) <= 3 and len(pub_seq) <= 4
    pre: all(0 <= t <= 2 for t in sub_topics) and all(0 <= t <= 2 for t in pub_seq)
    post: _ == True
    """
    log, expected = _bus(sub_topics, pub_seq)
    return log == expected


def bus_delivery_big_twin(sub_topics: List[int], pub_seq: List[int]) -> bool:
    """
    pre: len(sub_topics) <= 3 and len(pub_seq) <= 4
    pre: all(0 <= t <= 2 for t in sub_topics) and all(0 <= t <= 2 for t in pub_seq)
    post: _ == False
    """
    log, expected = _bus(sub_topics, pub_seq)
    return log == expected and len(log) >= 2


def estimator_schedule_big(kinds: List[bool], times: List[float], initialize: bool) -> bool:
    """
    pre: len(kinds) == len(times) and len(times) <= 4
    pre: all(0.0 <= t <= 100.0 for t in times)
    post: _ == True
    """
    ok, rec = _schedule(kinds, times, initialize)
    return ok


def estimator_schedule_big_twin(kinds: List[bool], times: List[float], initialize: bool) -> bool:
    """
    pre: len(kinds) == len(times) and len(times) <= 4
    pre: all(0.0 <= t <= 100.0 for t in times)
    post: _ == False
    """
    ok, rec = _schedule(kinds, times, initialize)
    return ok and len(rec["predict_dt"]) >= 2 and len(rec["accel_t"]) >= 2
