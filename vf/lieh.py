"""Shared pieces for the Lie-group properties (C01-C05): group registry, input charts,
closed-form oracles of the matrix exponential."""
from __future__ import annotations
import casadi as ca
import z3
from fractions import Fraction

from .val import Val, lift
from . import val as V
from .enc import Ctx, Angle
from .oracles import (Lattice, s2_chart, s3_chart, weier, quat_to_R, rot_axis_angle)


def lie():
    import cyecca.lie as L
    return L


def groups():
    L = lie()
    return {
        "SO2": L.SO2, "SE2": L.SE2, "R2": L.R2, "R3": L.R3,
        "SO3Quat": L.SO3Quat, "SO3Mrp": L.SO3Mrp, "SO3Dcm": L.SO3Dcm, "SO3EulerB321": L.SO3EulerB321,
        "SE3Quat": L.SE3Quat, "SE3Mrp": L.SE3Mrp, "SE23Quat": L.SE23Quat, "SE23Mrp": L.SE23Mrp,
    }


def so3_of(gname):
    for k in ("Quat", "Mrp", "Dcm", "EulerB321"):
        if gname.endswith(k):
            return "SO3" + k
    return None


def family(gname):
    if gname.startswith("SE23"):
        return "SE23"
    if gname.startswith("SE3"):
        return "SE3"
    if gname.startswith("SO3"):
        return "SO3"
    return gname


# ---- algebra inputs ---------------------------------------------------------------------------

def algebra_input(ctx: Ctx, fam: str, tag="", lattice="quarter", free_rot=False, below_pi=False):
    """Vals of an algebra parameter vector + aux for the oracle.
    Rotation part = th * n(a, b) on the S^2 chart with th on an angle lattice (th > 0), unless
    free_rot (three free reals; only for polynomial obligations)."""
    aux = {}

    def rot():
        if free_rot:
            w = [Val.var(f"w{tag}{i}") for i in range(3)]
            aux["w"] = w
            return w
        L = Lattice(ctx, f"th{tag}", lattice, below_pi=below_pi)
        a, b = Val.var(f"a{tag}"), Val.var(f"b{tag}")
        n = s2_chart(a, b)
        aux.update(th=L.th, s=L.s, c=L.c, n=n)
        if lattice == "quarter":
            aux.update(s2=L.s2, c2=L.c2, t4=L.tan4)
        aux["_lat"] = L
        return [L.th * n[0], L.th * n[1], L.th * n[2]]

    if fam in ("SO2", "SE2"):
        def _fix(env, tag=tag):
            import mpmath as mp
            if f"th{tag}" in env:
                env[f"s{tag}"] = mp.sin(env[f"th{tag}"])
                env[f"c{tag}"] = mp.cos(env[f"th{tag}"])
        ctx.probe_fix = _fix
    if fam == "SO2":
        th = Val.var(f"th{tag}")
        s, c = Val.var(f"s{tag}"), Val.var(f"c{tag}")
        ctx.assume(V.eq(s * s + c * c, 1))
        ctx.angles.append(Angle(th, sin=s, cos=c, name="th"))
        aux.update(th=th, s=s, c=c)
        return [th], aux
    if fam == "SE2":
        th = Val.var(f"th{tag}")
        s, c = Val.var(f"s{tag}"), Val.var(f"c{tag}")
        ctx.assume(V.eq(s * s + c * c, 1))
        ctx.angles.append(Angle(th, sin=s, cos=c, name="th"))
        p = [Val.var(f"x{tag}"), Val.var(f"y{tag}")]
        aux.update(th=th, s=s, c=c, p=p)
        return p + [th], aux
    if fam in ("R2", "R3"):
        n = int(fam[1])
        p = [Val.var(f"x{tag}{i}") for i in range(n)]
        aux.update(p=p)
        return p, aux
    if fam == "SO3":
        return rot(), aux
    if fam == "SE3":
        v = [Val.var(f"v{tag}{i}") for i in range(3)]
        w = rot()
        aux.update(v=v)
        return v + w, aux
    if fam == "SE23":
        v = [Val.var(f"v{tag}{i}") for i in range(3)]
        a = [Val.var(f"acc{tag}{i}") for i in range(3)]
        w = rot()
        aux.update(v=v, a=a)
        return v + a + w, aux
    raise KeyError(fam)


def algebra_of(fam):
    L = lie()
    return {"SO2": L.so2, "SE2": L.se2, "R2": L.r2, "R3": L.r3, "SO3": L.so3, "SE3": L.se3,
            "SE23": L.se23}[fam]


def n_alg(fam):
    return {"SO2": 1, "SE2": 3, "R2": 2, "R3": 3, "SO3": 3, "SE3": 6, "SE23": 9}[fam]


# ---- closed forms of expm ---------------------------------------------------------------------

def expm_oracle(fam, aux):
    """matrix exponential of algebra.to_Matrix(x), closed form (generic over number type)"""
    if fam == "SO2":
        s, c = aux["s"], aux["c"]
        return [[c, -s], [s, c]]
    if fam == "SE2":
        s, c, th = aux["s"], aux["c"], aux["th"]
        x, y = aux["p"]
        a = s / th
        b = (1 - c) / th
        return [[c, -s, a * x - b * y], [s, c, b * x + a * y], [0, 0, 1]]
    if fam in ("R2", "R3"):
        n = int(fam[1])
        M = V.mat_eye(n + 1)
        for i in range(n):
            M[i][n] = aux["p"][i]
        return M
    n, s, c, th = aux["n"], aux["s"], aux["c"], aux["th"]
    R = rot_axis_angle(n, s, c)
    if fam == "SO3":
        return R
    N = V.hat(n)
    N2 = V.mat_mul(N, N)
    # left Jacobian of SO(3): I + (1-c)/th N + (th - s)/th N^2
    Vm = V.mat_add(V.mat_eye(3), V.mat_add(V.mat_scale((1 - c) / th, N), V.mat_scale((th - s) / th, N2)))
    if fam == "SE3":
        p = V.mat_vec(Vm, aux["v"])
        return [R[0] + [p[0]], R[1] + [p[1]], R[2] + [p[2]], [0, 0, 0, 1]]
    if fam == "SE23":
        pa = V.mat_vec(Vm, aux["a"])
        pv = V.mat_vec(Vm, aux["v"])
        return [R[0] + [pa[0], pv[0]], R[1] + [pa[1], pv[1]], R[2] + [pa[2], pv[2]],
                [0, 0, 0, 1, 0], [0, 0, 0, 0, 1]]
    raise KeyError(fam)


def sample_env_generic(ctx_in_vals_fn, rng):
    return None


# ---- cut at from_Matrix (modular reasoning: caller passes the right matrix; the conversion itself
#      is the C01/C07 right-inverse lemma, proved separately for all rotation matrices) ----------

class MatrixCut:
    """Patch `from_Matrix` of SE_2(3) and Euler groups in-process: the call records its argument
    and returns an element with fresh symbolic parameters."""

    def __init__(self, which=("SE23", "Euler")):
        self.which = which
        self.calls = []  # (group, A, P)
        self._saved = []

    def __enter__(self):
        import cyecca.lie.group_se23 as g23
        import cyecca.lie.group_so3 as gso3
        targets = []
        if "SE23" in self.which:
            targets.append(g23.SE23LieGroup)
        if "Euler" in self.which:
            targets.append(gso3.SO3EulerLieGroup)
        if "Quat" in self.which:
            targets.append(gso3.SO3QuatLieGroup)
        if "Mrp" in self.which:
            targets.append(gso3.SO3MrpLieGroup)
        cut = self

        def mk(cls):
            def from_Matrix(self_, arg):
                A = ca.SX(arg)
                P = ca.SX.sym(f"cut{len(cut.calls)}", self_.n_param)
                cut.calls.append((self_, A, P))
                return self_.elem(P)
            return from_Matrix
        for cls in targets:
            self._saved.append((cls, cls.__dict__.get("from_Matrix")))
            setattr(cls, "from_Matrix", mk(cls))
        return self

    def __exit__(self, *a):
        for cls, old in self._saved:
            if old is None:
                delattr(cls, "from_Matrix")
            else:
                setattr(cls, "from_Matrix", old)
        return False


# ---- group element inputs ---------------------------------------------------------------------

class GIn:
    """parameters (Vals) of one group element on its chart + oracle knowledge"""

    def __init__(self, params, aux, lats=()):
        self.params = params
        self.aux = aux
        self.lats = list(lats)


def _so3_input(ctx, rep, tag, sign=1, free=False):
    """rep in Quat, Mrp, Dcm, EulerB321.  aux['R'] = oracle rotation matrix where it is cheap."""
    if rep == "Quat":
        if free:
            q = [Val.var(f"q{tag}{i}") for i in range(4)]
            return GIn(q, {"q": q})
        u = [Val.var(f"u{tag}{i}") for i in range(3)]
        q = s3_chart(u[0], u[1], u[2], sign)
        return GIn(q, {"q": q, "R": quat_to_R(q)})
    if rep == "Mrp":
        r = [Val.var(f"r{tag}{i}") for i in range(3)]
        return GIn(r, {"r": r})
    if rep == "Dcm":
        u = [Val.var(f"u{tag}{i}") for i in range(3)]
        q = s3_chart(u[0], u[1], u[2], sign)
        R = quat_to_R(q)
        return GIn(V.vec(R), {"R": R, "q": q})
    if rep == "EulerB321":
        lats = []
        ang = []
        sc = []
        from .oracles import PI_TAN_BAND
        for nm in ("psi", "theta", "phi"):
            L = Lattice(ctx, f"{nm}{tag}", "half", positive=False)
            lats.append(L)
            ang.append(L.th)
            sc.append((L.s, L.c))
        th = lats[1]
        pi = ctx.pi()
        band = Val.const(Fraction(1, 1000) + Fraction(1, 10 ** 9))  # code compares with double pi/2
        ctx.assume(V.le(th.th, pi / 2 - band), V.ge(th.th, -(pi / 2 - band)))
        ctx.assume(V.le(th.u, Val.const(PI_TAN_BAND)), V.ge(th.u, Val.const(-PI_TAN_BAND)))
        th.A1.flags |= {"asin", "atan"}
        from .oracles import rotx, roty, rotz
        R = V.mat_mul(V.mat_mul(rotz(*sc[0]), roty(*sc[1])), rotx(*sc[2]))
        return GIn(ang, {"R": R, "angles": ang, "sc": sc}, lats)
    raise KeyError(rep)


def group_input(ctx: Ctx, gname: str, tag="", sign=1, free_quat=False) -> GIn:
    fam = family(gname)
    if fam == "SO2":
        L = Lattice(ctx, f"th{tag}", "half", positive=False)
        return GIn([L.th], {"th": L.th, "s": L.s, "c": L.c}, [L])
    if fam == "SE2":
        L = Lattice(ctx, f"th{tag}", "half", positive=False)
        p = [Val.var(f"x{tag}"), Val.var(f"y{tag}")]
        return GIn(p + [L.th], {"th": L.th, "s": L.s, "c": L.c, "p": p}, [L])
    if fam in ("R2", "R3"):
        n = int(fam[1])
        p = [Val.var(f"x{tag}{i}") for i in range(n)]
        return GIn(p, {"p": p})
    rep = so3_of(gname)[3:]
    g = _so3_input(ctx, rep, tag, sign, free_quat)
    if fam == "SO3":
        return g
    if fam == "SE3":
        p = [Val.var(f"p{tag}{i}") for i in range(3)]
        aux = dict(g.aux)
        aux["p"] = p
        return GIn(p + g.params, aux, g.lats)
    if fam == "SE23":
        p = [Val.var(f"p{tag}{i}") for i in range(3)]
        v = [Val.var(f"v{tag}{i}") for i in range(3)]
        aux = dict(g.aux)
        aux["p"] = p
        aux["v"] = v
        return GIn(p + v + g.params, aux, g.lats)
    raise KeyError(gname)


def n_grp(gname):
    return groups()[gname].n_param


# ---- angle-parametrised SO(3) elements (for log: the input is given by its rotation angle) ------

def so3_angle_input(ctx: Ctx, rep: str, variant: str = "+", tag=""):
    """element of SO(3) in representation `rep` for the rotation (phi, n), phi on a quarter lattice.
    variants: Quat '+' / '-' (antipodal quaternion), Mrp 'inner' (|r| < 1, phi < pi) / 'shadow'
    (|r| > 1, phi in (pi, 2pi) is the angle 4 atan|r|), Dcm '+'.  phi < pi except for 'shadow'."""
    below = (variant != "shadow")
    L = Lattice(ctx, f"phi{tag}", "quarter", below_pi=below)
    if variant == "shadow":
        ctx.assume(L.t.num_term() > 1)
    a, b = Val.var(f"a{tag}"), Val.var(f"b{tag}")
    n = s2_chart(a, b)
    aux = dict(th=L.th, s=L.s, c=L.c, s2=L.s2, c2=L.c2, t4=L.tan4, n=n)
    aux["R"] = rot_axis_angle(n, L.s, L.c)
    if rep == "Quat":
        q = [L.c2, L.s2 * n[0], L.s2 * n[1], L.s2 * n[2]]
        if variant == "-":
            q = [-x for x in q]
            pi = ctx.pi()
            comp = pi - L.th / 2  # angle whose cosine is -cos(phi/2); in (pi/2, pi)
            ctx.angles.append(Angle(comp, sin=L.s2, cos=-L.c2, flags={"acos"}, name="pi-phi/2"))
            ctx.angles.append(Angle(2 * comp, sin=-L.s, cos=L.c, name="2pi-phi"))
            ctx.roots.append(comp)
            ctx.roots.append(2 * comp)
        params = q
    elif rep == "Mrp":
        params = [L.tan4 * n[0], L.tan4 * n[1], L.tan4 * n[2]]
    elif rep == "Dcm":
        params = V.vec(aux["R"])
    else:
        raise KeyError(rep)
    return GIn(params, aux, [L])


def group_angle_input(ctx, gname, variant, tag=""):
    fam = family(gname)
    rep = so3_of(gname)[3:]
    g = so3_angle_input(ctx, rep, variant, tag)
    if fam == "SO3":
        return g
    p = [Val.var(f"p{tag}{i}") for i in range(3)]
    aux = dict(g.aux)
    aux["p"] = p
    if fam == "SE3":
        return GIn(p + g.params, aux, g.lats)
    v = [Val.var(f"v{tag}{i}") for i in range(3)]
    aux["v"] = v
    return GIn(p + v + g.params, aux, g.lats)
