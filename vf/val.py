"""Factored rational-function values over z3 real terms (DESIGN.md §1.3).

A Val denotes   c * prod(nf) / prod(df)   with c an exact Fraction and nf/df multisets of z3
terms keyed by AST id.  All denominators are assumed (and, where a claim requires it, proved)
non-zero; cancelling a factor between numerator and denominator is valid under that assumption.
"""
from __future__ import annotations
from fractions import Fraction
import z3

_CTX = None


def Q(x) -> z3.ArithRef:
    x = Fraction(x)
    return z3.RatVal(x.numerator, x.denominator)


def _merge(a, b, sign=1):
    """multiset sum of factor dicts: {id: (term, pow)}"""
    if not b:
        return dict(a)
    r = dict(a)
    for k, (t, p) in b.items():
        if k in r:
            np_ = r[k][1] + sign * p
            if np_ == 0:
                del r[k]
            else:
                r[k] = (t, np_)
        else:
            r[k] = (t, sign * p)
    return r


def _small(t, limit=80):
    """True if the term DAG has fewer than `limit` nodes (bounded traversal)"""
    seen = set()
    stack = [t]
    while stack:
        e = stack.pop()
        i = e.get_id()
        if i in seen:
            continue
        seen.add(i)
        if len(seen) > limit:
            return False
        stack.extend(e.children())
    return True


def _prod_term(fs):
    """z3 term of a factor multiset (positive powers only); None if empty"""
    acc = None
    for k in sorted(fs):
        t, p = fs[k]
        assert p > 0
        for _ in range(p):
            acc = t if acc is None else acc * t
    return acc


# fresh sqrt atoms: z3 term id of y -> radicand Val a with the defining axiom y*y = a (y >= 0).
# Products reduce y^2 to a on the fly (sound rewriting modulo the axiom); see Ctx.sqrt.
SQRT_ATOMS = {}


class Val:
    __slots__ = ("c", "nf", "df")

    def __init__(self, c=0, nf=None, df=None):
        self.c = Fraction(c)
        if self.c == 0:
            self.nf = {}
            self.df = {}
        else:
            self.nf = nf or {}
            self.df = df or {}

    # ---- constructors -----------------------------------------------------------------
    @staticmethod
    def const(x):
        return Val(Fraction(x))

    @staticmethod
    def term(t):
        """a z3 real term as an atomic factor"""
        if z3.is_rational_value(t):
            return Val(Fraction(t.numerator_as_long(), t.denominator_as_long()))
        return Val(1, {t.get_id(): (t, 1)})

    @staticmethod
    def var(name):
        return Val.term(z3.Real(name))

    # ---- predicates -------------------------------------------------------------------
    def is_const(self):
        return not self.nf and not self.df

    def is_zero(self):
        return self.c == 0

    def const_value(self):
        assert self.is_const()
        return self.c

    # ---- terms ------------------------------------------------------------------------
    def num_term(self):
        p = _prod_term(self.nf)
        if p is None:
            return Q(self.c)
        if self.c == 1:
            return p
        return Q(self.c) * p

    def den_term(self):
        p = _prod_term(self.df)
        return Q(1) if p is None else p

    def as_term(self):
        """plain z3 term with real division (only for contexts where den != 0 is known)"""
        if not self.df:
            return self.num_term()
        return self.num_term() / self.den_term()

    # ---- arithmetic -------------------------------------------------------------------
    def __neg__(self):
        return Val(-self.c, self.nf, self.df)

    def __mul__(self, o):
        o = lift(o)
        if self.c == 0 or o.c == 0:
            return Val(0)
        nf = _merge(self.nf, o.nf)
        df = _merge(self.df, o.df)
        # cancel
        for k in list(nf):
            if k in df:
                pn, pd = nf[k][1], df[k][1]
                t = nf[k][0]
                m = min(pn, pd)
                if pn - m:
                    nf[k] = (t, pn - m)
                else:
                    del nf[k]
                if pd - m:
                    df[k] = (t, pd - m)
                else:
                    del df[k]
        r = Val(self.c * o.c, nf, df)
        if SQRT_ATOMS:
            for k in list(nf):
                if k in SQRT_ATOMS and nf[k][1] >= 2 and SQRT_ATOMS[k][0].eq(nf[k][0]):
                    t, pw = nf[k]
                    q = pw // 2
                    nf2 = dict(nf)
                    if pw - 2 * q:
                        nf2[k] = (t, pw - 2 * q)
                    else:
                        del nf2[k]
                    return Val(r.c, nf2, df) * (SQRT_ATOMS[k][1] ** q)
            for k in list(df):
                if k in SQRT_ATOMS and df[k][1] >= 2 and SQRT_ATOMS[k][0].eq(df[k][0]):
                    t, pw = df[k]
                    q = pw // 2
                    df2 = dict(df)
                    if pw - 2 * q:
                        df2[k] = (t, pw - 2 * q)
                    else:
                        del df2[k]
                    return Val(r.c, nf, df2) * (SQRT_ATOMS[k][1] ** (-q))
        return r

    __rmul__ = __mul__

    def inv(self):
        if self.c == 0:
            raise ZeroDivisionError("division by constant zero")
        return Val(1 / self.c, self.df, self.nf)

    def __truediv__(self, o):
        return self * lift(o).inv()

    def __rtruediv__(self, o):
        return lift(o) * self.inv()

    def __add__(self, o):
        o = lift(o)
        if self.c == 0:
            return o
        if o.c == 0:
            return self
        a, b = self, o
        # common denominator (max powers)
        L = dict(a.df)
        for k, (t, p) in b.df.items():
            if k not in L or L[k][1] < p:
                L[k] = (t, p)
        ma = {k: (t, p - a.df[k][1] if k in a.df else p) for k, (t, p) in L.items()}
        ma = {k: v for k, v in ma.items() if v[1] > 0}
        mb = {k: (t, p - b.df[k][1] if k in b.df else p) for k, (t, p) in L.items()}
        mb = {k: v for k, v in mb.items() if v[1] > 0}
        na = _merge(a.nf, ma)
        nb = _merge(b.nf, mb)
        # common numerator factors
        G = {}
        for k, (t, p) in na.items():
            if k in nb:
                G[k] = (t, min(p, nb[k][1]))
        ra = _merge(na, G, -1)
        rb = _merge(nb, G, -1)
        if not ra and not rb:
            c = a.c + b.c
            return (Val(c, G) * Val(1, None, L)) if c != 0 else Val(0)
        ta = _prod_term(ra)
        tb = _prod_term(rb)
        ta = Q(a.c) if ta is None else (ta if a.c == 1 else Q(a.c) * ta)
        tb = Q(b.c) if tb is None else (tb if b.c == 1 else Q(b.c) * tb)
        s = ta + tb
        if _small(s):
            # cheap normalisation of small sums: (1 + n) + (1 - n) -> 2 etc.
            s2 = z3.simplify(s, som=True)
            if z3.is_rational_value(s2):
                c = Fraction(s2.numerator_as_long(), s2.denominator_as_long())
                return (Val(c, G) * Val(1, None, L)) if c != 0 else Val(0)
            s = s2
        nf = dict(G)
        nf[s.get_id()] = (s, 1)
        return Val(1, nf) * Val(1, None, L)

    __radd__ = __add__

    def __sub__(self, o):
        return self + (-lift(o))

    def __rsub__(self, o):
        return lift(o) + (-self)

    def __pow__(self, k):
        assert isinstance(k, int)
        if k == 0:
            return Val(1)
        if k < 0:
            return (self ** (-k)).inv()
        return Val(self.c ** k, {i: (t, p * k) for i, (t, p) in self.nf.items()},
                   {i: (t, p * k) for i, (t, p) in self.df.items()})

    def __repr__(self):
        return f"Val({self.c}*{[ (str(t)[:40],p) for t,p in self.nf.values()]}/{[(str(t)[:40],p) for t,p in self.df.values()]})"


def lift(x) -> Val:
    if isinstance(x, Val):
        return x
    if isinstance(x, (int, Fraction)):
        return Val(Fraction(x))
    if isinstance(x, float):
        return Val(Fraction(x))
    if isinstance(x, z3.ExprRef):
        return Val.term(x)
    raise TypeError(type(x))


# ---- relations -> z3 formulas --------------------------------------------------------------

def _common(a: Val, b: Val):
    """return (ta, tb, Lodd) with a = ta/L, b = tb/L and Lodd the odd-power part of L"""
    L = dict(a.df)
    for k, (t, p) in b.df.items():
        if k not in L or L[k][1] < p:
            L[k] = (t, p)
    ma = {k: (t, p - (a.df[k][1] if k in a.df else 0)) for k, (t, p) in L.items()}
    ma = {k: v for k, v in ma.items() if v[1] > 0}
    mb = {k: (t, p - (b.df[k][1] if k in b.df else 0)) for k, (t, p) in L.items()}
    mb = {k: v for k, v in mb.items() if v[1] > 0}
    ta = Val(a.c, _merge(a.nf, ma)).num_term()
    tb = Val(b.c, _merge(b.nf, mb)).num_term()
    Lodd = {k: (t, 1) for k, (t, p) in L.items() if p % 2 == 1}
    return ta, tb, Lodd


def eq(a, b) -> z3.BoolRef:
    a, b = lift(a), lift(b)
    d = a - b
    if d.is_zero():
        return z3.BoolVal(True)
    return d.num_term() == 0


def ne(a, b) -> z3.BoolRef:
    return z3.Not(eq(a, b))


def lt(a, b) -> z3.BoolRef:
    """a < b, valid where all denominators are non-zero"""
    a, b = lift(a), lift(b)
    d = a - b
    if d.is_zero():
        return z3.BoolVal(False)
    odd = {k: (t, 1) for k, (t, p) in d.df.items() if p % 2 == 1}
    s = _prod_term(odd)
    n = d.num_term()
    return (n < 0) if s is None else (n * s < 0)


def le(a, b) -> z3.BoolRef:
    a, b = lift(a), lift(b)
    d = a - b
    if d.is_zero():
        return z3.BoolVal(True)
    odd = {k: (t, 1) for k, (t, p) in d.df.items() if p % 2 == 1}
    s = _prod_term(odd)
    n = d.num_term()
    return (n <= 0) if s is None else (n * s <= 0)


def gt(a, b):
    return lt(b, a)


def ge(a, b):
    return le(b, a)


def den_nonzero(v: Val):
    return [t != 0 for (t, p) in v.df.values()]


# ---- matrices (generic over the number type: Val, mpf, Fraction, float) -----------------------

def mat_mul(A, B):
    n, m, p = len(A), len(B), len(B[0])
    return [[sum((A[i][k] * B[k][j] for k in range(1, m)), A[i][0] * B[0][j]) for j in range(p)] for i in range(n)]


def mat_vec(A, x):
    return [sum((A[i][k] * x[k] for k in range(1, len(x))), A[i][0] * x[0]) for i in range(len(A))]


def mat_add(A, B):
    return [[A[i][j] + B[i][j] for j in range(len(A[0]))] for i in range(len(A))]


def mat_sub(A, B):
    return [[A[i][j] - B[i][j] for j in range(len(A[0]))] for i in range(len(A))]


def mat_scale(s, A):
    return [[s * A[i][j] for j in range(len(A[0]))] for i in range(len(A))]


def mat_T(A):
    return [[A[i][j] for i in range(len(A))] for j in range(len(A[0]))]


def mat_eye(n):
    return [[1 if i == j else 0 for j in range(n)] for i in range(n)]


def mat_zero(n, m):
    return [[0 for _ in range(m)] for _ in range(n)]


def hat(v):
    x, y, z = v
    return [[0, -z, y], [z, 0, -x], [-y, x, 0]]


def dot(a, b):
    return sum((a[i] * b[i] for i in range(1, len(a))), a[0] * b[0])


def cross(a, b):
    return [a[1] * b[2] - a[2] * b[1], a[2] * b[0] - a[0] * b[2], a[0] * b[1] - a[1] * b[0]]


def vec(M):
    """column-major flattening (CasADi convention)"""
    return [M[i][j] for j in range(len(M[0])) for i in range(len(M))]


def col(M, j):
    return [M[i][j] for i in range(len(M))]


def block(M, r0, r1, c0, c1):
    return [[M[i][j] for j in range(c0, c1)] for i in range(r0, r1)]


def blocks(rows):
    """assemble a block matrix from a list of block rows"""
    out = []
    for brow in rows:
        n = len(brow[0])
        for i in range(n):
            r = []
            for B in brow:
                r.extend(B[i])
            out.append(r)
    return out
