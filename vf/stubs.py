"""In-process coefficient stubs for cyecca.symbolic.SERIES / SQUARED_SERIES (DESIGN.md §1.5).

No source change: the two shared dicts are patched in place for the duration of a `with` block.
Each call of a series function returns a fresh SX symbol and records (key, squared?, argument).
The real caller code runs unchanged; the harness later binds every coefficient symbol to the
exact function the key denotes, evaluated at the recorded argument (obligation E)."""
from __future__ import annotations
import casadi as ca
import cyecca.symbolic as cs

from .val import Val
from .oracles import series_oracle
from .enc import ValDomain, evaluate, Unsupported
from .ir import IR


class SeriesStubs:
    def __init__(self):
        self.calls = []  # (key, squared, arg SX, sym SX)
        self._saved = None

    def _mk(self, key, squared):
        def stub(arg):
            arg = ca.SX(arg)
            if arg.numel() != 1:
                raise Unsupported("series stub with non-scalar argument")
            sym = ca.SX.sym(f"coef{len(self.calls)}")
            self.calls.append((key, squared, arg, sym))
            return sym
        return stub

    def __enter__(self):
        self._saved = (dict(cs.SERIES), dict(cs.SQUARED_SERIES))
        for k in list(cs.SERIES):
            cs.SERIES[k] = self._mk(k, False)
        for k in list(cs.SQUARED_SERIES):
            cs.SQUARED_SERIES[k] = self._mk(k, True)
        return self

    def __exit__(self, *a):
        cs.SERIES.clear()
        cs.SERIES.update(self._saved[0])
        cs.SQUARED_SERIES.clear()
        cs.SQUARED_SERIES.update(self._saved[1])
        return False

    # ---- after the real code ran ------------------------------------------------------
    def coef_syms(self):
        return [c[3] for c in self.calls]

    def arg_function(self, ins):
        """CasADi function inputs -> recorded arguments (may depend on earlier coefficients too)"""
        if not self.calls:
            return None
        return ca.Function("series_args", list(ins) + [ca.vertcat(*self.coef_syms())],
                           [ca.vertcat(*[c[2] for c in self.calls])])

    def bind(self, ctx, in_vals, ins_sx, derivatives=False):
        """Val of every coefficient = oracle function of the recorded argument (x > 0 resolved via
        the ctx tables).  Returns list of Vals in call order."""
        coefs = []
        dcoefs = []
        if not self.calls:
            return (coefs, dcoefs) if derivatives else coefs
        # arguments may (rarely) depend on earlier coefficients; evaluate sequentially
        for k, (key, squared, arg, sym) in enumerate(self.calls):
            prev = self.coef_syms()[:k]
            f = ca.Function("arg", list(ins_sx) + ([ca.vertcat(*prev)] if prev else []), [arg])
            ir = IR(f)
            dom = ValDomain(ctx)
            iv = list(in_vals) + ([coefs[:k]] if prev else [])
            a = evaluate(ir, iv, dom)[0][0]
            if dom.alternatives:
                raise Unsupported("series argument depends on a two-sided branch")
            if a.is_zero():
                # argument identically zero: the coefficient is the limit value (C06 S2 ties the code's
                # Taylor branch to it)
                from .oracles import SERIES_LIMIT
                lim = SERIES_LIMIT[key]
                if lim is None:
                    raise Unsupported(f"series {key} called at its pole")
                coefs.append(Val(lim))
                dcoefs.append(Val(0))
                continue
            x = ctx.sqrt(a) if squared else a
            tan4 = None
            atan_x = None
            if key == "tan(x/4)/x":
                tan4 = ctx.tan(x / 4)
                s = c = None
            elif key == "4 atan(x)/x":
                atan_x = ctx.atan(x)
                s = c = None
            else:
                s, c = ctx.sin(x), ctx.cos(x)
            if derivatives:
                from .oracles import series_oracle_with_derivative
                v, d = series_oracle_with_derivative(key, x, s, c, tan4=tan4, atan_x=atan_x, squared=squared)
                coefs.append(v)
                dcoefs.append(d)
            else:
                coefs.append(series_oracle(key, x, s, c, tan4=tan4, atan_x=atan_x))
        if derivatives:
            return coefs, dcoefs
        return coefs


class FunctionCapture:
    """While active, `casadi.Function(name, ins, outs, ...)` records (name, ins, outs) before building; a build that
    fails because cut / stub symbols are free returns None instead of raising (the recording is what the harness uses).
    No source change: the library looks `ca.Function` up at call time."""

    def __init__(self):
        self.calls = []

    def __enter__(self):
        import casadi
        self._orig = casadi.Function
        cap = self

        def Function(name, *a, **k):
            if len(a) >= 2 and isinstance(a[0], (list, tuple)) and isinstance(a[1], (list, tuple)):
                cap.calls.append((name, list(a[0]), list(a[1]), list(a[2]) if len(a) > 2 and isinstance(a[2], (list, tuple)) else None))
            try:
                return cap._orig(name, *a, **k)
            except RuntimeError:
                return None
        casadi.Function = Function
        return self

    def __exit__(self, *a):
        import casadi
        casadi.Function = self._orig
        return False

    def last(self, name):
        for n, i, o, names in reversed(self.calls):
            if n == name:
                return i, o, names
        raise KeyError(name)
