"""Harness protocol + generic driver: real code -> IR -> cells -> obligations -> replay.

A Harness describes one family of obligations about one CasADi function built from real
repository code.  Its `claims` method is written generically over the number type, so the very
same statement is (a) turned into SMT obligations on Val outputs and (b) re-evaluated
numerically on the *real* CasADi function when the solver returns a model (replay)."""
from __future__ import annotations
import math
import random
import time
import json
import os
from fractions import Fraction
import casadi as ca
import mpmath as mp
import z3

from .ir import IR
from .enc import (evaluate, explore, FloatDomain, MpDomain, FracDomain, Ctx, Unsupported,
                  Undefined, Infeasible)
from .val import Val, lift
from . import val as V
from .solve import prove, eval_val, eval_term, val_vars, free_vars, to_smt2


class HarnessError(Exception):
    """the real code refuses / returns something of the wrong shape when asked to do what the property says it offers"""


class StructureChanged(Exception):
    """an assumption of the harness' own instrumentation (cut points, recorded calls, signatures) no longer holds: the
    check cannot decide anything on this tree and must say so (harness error, exit 3) - never a VIOLATION"""


class _Unused(Exception):
    pass


class Claim:
    """lhs (kind) rhs; kind in eq, le, lt, ge, gt, ne; label identifies the obligation"""
    __slots__ = ("label", "lhs", "rhs", "kind", "tol", "extra", "alt", "guard")

    def __init__(self, label, lhs, rhs, kind="eq", tol=None, extra=(), alt=(), guard=None):
        self.label, self.lhs, self.rhs, self.kind, self.tol = label, lhs, rhs, kind, tol
        self.guard = guard  # optional (lhs, kind, rhs): the claim is  guard => lhs kind rhs
        self.extra = tuple(extra)  # additional assumptions (z3 Bool) for this claim only
        self.alt = tuple(alt)  # equivalent reformulations (Claims) tried when the solver answers unknown


_REL = {"eq": V.eq, "le": V.le, "lt": V.lt, "ge": V.ge, "gt": V.gt, "ne": V.ne}


def claim_formula(c: Claim):
    f = _REL[c.kind](c.lhs, c.rhs)
    if c.guard is not None:
        gs = c.guard if isinstance(c.guard, list) else [c.guard]
        return z3.Implies(z3.And(*[_REL[gk](gl, gr) for (gl, gk, gr) in gs]), f)
    return f


def claim_holds_num(c: Claim, tol):
    if c.guard is not None:
        for (gl, gk, gr) in (c.guard if isinstance(c.guard, list) else [c.guard]):
            gd = mp.mpf(gl) - mp.mpf(gr)
            gok = {"eq": gd == 0, "le": gd <= 0, "lt": gd < 0, "ge": gd >= 0, "gt": gd > 0, "ne": gd != 0}[gk]
            if not gok:
                return True, 0.0
    a, b = c.lhs, c.rhs
    t = c.tol if c.tol is not None else tol
    try:
        a = mp.mpf(a) if not isinstance(a, mp.mpf) else a
        b = mp.mpf(b) if not isinstance(b, mp.mpf) else b
    except Exception:
        return False, float("nan")
    if not (mp.isfinite(a) and mp.isfinite(b)):
        return False, float("nan")
    d = a - b
    scale = 1
    k = c.kind
    if k == "eq":
        ok = abs(d) <= t * scale
    elif k == "le":
        ok = d <= t
    elif k == "lt":
        ok = d < t
    elif k == "ge":
        ok = d >= -t
    elif k == "gt":
        ok = d > -t
    elif k == "ne":
        ok = abs(d) > 0
    return bool(ok), float(d)


class Harness:
    """Subclass or instantiate with callables."""
    name = "harness"
    tol = 1e-9
    timeout_ms = 20000
    max_cells = 64
    defined = "assume"  # 'assume': denominators met on the path are assumed non-zero (stated exclusion)
    #                      'prove' : each one becomes an obligation
    n_validate = 3
    exact_replay = False

    def build(self) -> ca.Function:  # real code on SX symbols
        raise NotImplementedError

    def make_ctx(self):  # -> (ctx, in_vals) ; may set ctx.aux (dict of Vals / nested lists)
        raise NotImplementedError

    def claims(self, outs, ins, aux):  # -> list[Claim]; generic over number type
        raise NotImplementedError

    def env_fix(self, env):  # make a model consistent (angles from their tangent variables)
        pass

    def cell_filter(self, cell):  # False -> cell is outside the claim (stated)
        return True

    def sample_env(self, rng):  # optional partial assignment of free variables for translator validation
        return None


def _dense_in(ir, k, vals, zero=0):
    return vals


def _num_aux(aux, env, cache):
    if isinstance(aux, Val):
        return eval_val(aux, env, cache)
    if isinstance(aux, dict):
        return {k: _num_aux(v, env, cache) for k, v in aux.items()}
    if isinstance(aux, (list, tuple)):
        return [_num_aux(v, env, cache) for v in aux]
    return aux


def _collect_vals(a, out=None):
    if out is None:
        out = []
    if isinstance(a, Val):
        out.append(a)
    elif isinstance(a, dict):
        for x in a.values():
            _collect_vals(x, out)
    elif isinstance(a, (list, tuple)):
        for x in a:
            _collect_vals(x, out)
    return out


def _casadi_eval(f, ins_float):
    args = []
    for i in range(f.n_in()):
        sp = f.sparsity_in(i)
        dm = ca.DM(sp, ins_float[i]) if sp.nnz() != sp.numel() else ca.DM(ins_float[i]).reshape((sp.size1(), sp.size2()))
        args.append(dm)
    res = f.call(args)
    outs = []
    for r in res:
        r = ca.DM(r)
        outs.append([[float(r[i, j]) for j in range(r.size2())] for i in range(r.size1())])
    return outs


def _same(a, b, rel=1e-9):
    if a != a and b != b:
        return True
    if math.isinf(a) or math.isinf(b):
        return a == b
    return abs(a - b) <= rel * max(1.0, abs(a), abs(b))


def validate_translator(h, f, ir, rng, stats):
    """interp(ii) vs CasADi VM at sample points (DESIGN §1.1)"""
    n = 0
    ctx, in_vals = h.make_ctx()
    names = val_vars([v for row in in_vals for v in row])
    names.update(val_vars(_collect_vals(getattr(ctx, "aux", {}))))
    for _ in range(h.n_validate):
        env = h.sample_env(rng)
        if env is None:
            env = {}
        for nm in names:
            if nm not in env:
                env[nm] = mp.mpf(rng.uniform(0.15, 1.4)) * (1 if rng.random() < 0.7 else -1)
        for k in list(env):
            if k.endswith("_t") or k.endswith("_u"):
                env[k] = abs(env[k])
        h.env_fix(env)
        try:
            pt = [[float(eval_val(v, env)) for v in row] for row in in_vals]
        except Exception as e:
            raise HarnessError(f"{h.name}: cannot evaluate input chart at sample point: {e}")
        try:
            mine = evaluate(ir, pt, FloatDomain())
        except Exception as e:
            raise HarnessError(f"{h.name}: float interpreter failed: {e}")
        theirs = _casadi_eval(f, pt)
        for i in range(ir.n_out):
            M = ir.out_dense(i, mine[i], 0.0)
            T = theirs[i]
            for r in range(len(M)):
                for c in range(len(M[0])):
                    if not _same(M[r][c], T[r][c]):
                        raise HarnessError(
                            f"{h.name}: translator validation failed at output {i}[{r},{c}]: {M[r][c]} vs {T[r][c]} at {pt}")
        n += 1
    stats["validated_points"] = stats.get("validated_points", 0) + n


def replay(h, f_real, in_vals, aux, claim_index, label, model, ctx):
    """Re-evaluate claim `label` on the real CasADi function at the model's point.
    Returns dict(confirmed=bool, ...)."""
    # free variables of inputs and aux
    env = {}
    for k, v in (model or {}).items():
        env[k] = mp.mpf(v.numerator) / v.denominator
    names = val_vars([v for row in in_vals for v in row])
    auxvals = []

    def coll(a):
        if isinstance(a, Val):
            auxvals.append(a)
        elif isinstance(a, dict):
            for x in a.values():
                coll(x)
        elif isinstance(a, (list, tuple)):
            for x in a:
                coll(x)
    coll(aux)
    names.update(val_vars(auxvals))
    for n in names:
        if n not in env:
            env[n] = mp.mpf(0)
    # round the free variables to doubles first, then make dependent angles consistent
    for n in list(env):
        env[n] = mp.mpf(float(env[n]))
    h.env_fix(env)
    cache = {}
    try:
        ins_num = [[eval_val(v, env, cache) for v in row] for row in in_vals]
    except ZeroDivisionError:
        return dict(confirmed=False, reason="chart singular at model point")
    ins_float = [[float(x) for x in row] for row in ins_num]
    outs_real = _casadi_eval(f_real, ins_float[:f_real.n_in()])
    if label.startswith("defined:"):
        # definedness side condition: confirmed iff the real function meets an undefined operation on the
        # path selected at this point (exact mp evaluation of the instruction list) or returns non-finite values
        bad = any((x != x or x in (float("inf"), float("-inf"))) for M in outs_real for row in M for x in row)
        why = "non-finite output" if bad else None
        if not bad:
            try:
                evaluate(IR(f_real), [[mp.mpf(x) for x in row] for row in ins_float[:f_real.n_in()]], MpDomain())
            except Undefined as e:
                bad, why = True, f"undefined operation on the selected path: {e}"
        if not bad and model:
            # thin cell: 50-digit evaluation at the solver's own point
            try:
                env2 = {k: mp.mpf(v.numerator) / v.denominator for k, v in model.items()}
                for n in names:
                    env2.setdefault(n, mp.mpf(0))
                h.env_fix(env2)
                ins2 = [[eval_val(v, env2) for v in row] for row in in_vals]
                try:
                    o2 = evaluate(IR(f_real), ins2[:f_real.n_in()], MpDomain())
                    if any(not mp.isfinite(x) for row in o2 for x in row if x is not None):
                        bad, why = True, "non-finite output at the solver's point (50-digit evaluation)"
                except Undefined as e:
                    bad, why = True, f"undefined operation on the selected path (50-digit evaluation at the solver's point): {e}"
            except Exception:
                pass
        return dict(confirmed=bad, reason=why or "real function is finite at the model point",
                    inputs=ins_float[:f_real.n_in()],
                    env={k: float(v) for k, v in env.items() if "!" not in k})
    outs_mp = [[[mp.mpf(x) for x in row] for row in M] for M in outs_real]
    try:
        aux_num = _num_aux(aux, env, cache)
        cl = h.claims(outs_mp, ins_num, aux_num)
    except (ZeroDivisionError, Undefined) as e:
        return dict(confirmed=False, reason=f"oracle undefined at model point: {e}")
    target = [c for c in cl if c.label == label]
    if not target:
        return dict(confirmed=False, reason="claim label not found in numeric replay")
    c = target[0]
    ok, d = claim_holds_num(c, h.tol)
    if ok and model:
        # the double-precision point may have left a thin branch cell: evaluate the real instruction list with
        # 50-digit arithmetic at the solver's own (unrounded) point
        try:
            env2 = {k: mp.mpf(v.numerator) / v.denominator for k, v in model.items()}
            for n in names:
                env2.setdefault(n, mp.mpf(0))
            h.env_fix(env2)
            cache2 = {}
            ins2 = [[eval_val(v, env2, cache2) for v in row] for row in in_vals]
            ir_real = IR(f_real)
            o2 = evaluate(ir_real, ins2[:f_real.n_in()], MpDomain())
            outs2 = [ir_real.out_dense(i, o2[i], mp.mpf(0)) for i in range(ir_real.n_out)]
            aux2 = _num_aux(aux, env2, cache2)
            c2 = [x for x in h.claims(outs2, ins2, aux2) if x.label == label][0]
            ok2, d2 = claim_holds_num(c2, h.tol)
            if not ok2:
                return dict(confirmed=True, diff=d2, inputs=[[float(x) for x in row] for row in ins2[:f_real.n_in()]],
                            note="confirmed by 50-digit evaluation of the real instruction list at the solver's point "
                                 "(the violation lives on a thin branch cell that double rounding leaves)",
                            env={k: float(v) for k, v in env2.items() if "!" not in k})
        except Exception as e:  # pragma: no cover
            pass
    return dict(confirmed=not ok, diff=d, inputs=ins_float[:f_real.n_in()],
                lhs=float(c.lhs) if mp.isfinite(mp.mpf(c.lhs)) else str(c.lhs),
                rhs=float(c.rhs) if mp.isfinite(mp.mpf(c.rhs)) else str(c.rhs),
                env={k: float(v) for k, v in env.items() if "!" not in k})


def run_harness(h: Harness, seed=0, tier="quick", shard=None):
    """returns dict(records=[...], stats={...}); each record: label, status, t, cell, replay"""
    t_start = time.time()
    rng = random.Random(seed * 7919 + hash(h.name) % 1000)
    stats = dict(name=h.name, cells=0, cells_skipped=0, queries=0, solver_time=0.0,
                 resolutions={}, functions=[], unknown_feas=0)
    records = []
    nclaim = 0
    reachable = 0
    failfast = False
    try:
        f = h.build()
    except NotImplementedError as e:
        # the operation is explicitly not offered for this group: out of scope
        stats["not_offered"] = str(e)[:200]
        stats["wall"] = time.time() - t_start
        return dict(records=records, stats=stats)
    except StructureChanged:
        raise
    except Exception as e:
        # the real code refuses/crashes when asked to do what the property says it offers
        import traceback
        records.append(dict(label="build", status="crash", detail=f"{type(e).__name__}: {e}",
                            trace=traceback.format_exc()[-1500:], harness=h.name))
        stats["wall"] = time.time() - t_start
        return dict(records=records, stats=stats)
    f_real = h.build_real() if hasattr(h, "build_real") else f
    ir = IR(f)
    stats["functions"].append(dict(function=f.name(), instructions=ir.n_instr, nodes=len(ir.nodes)))
    validate_translator(h, f, ir, rng, stats)
    cells_iter = explore(ir, h.make_ctx, max_cells=h.max_cells)
    while True:
        try:
            cell = next(cells_iter)
        except StopIteration:
            break
        except Undefined as e:
            # an undefined operation with constant operands on a reachable path (e.g. 1/0, inf constant)
            reachable += 1
            rp = dict(confirmed=True, note=str(e))
            try:
                ctx0, iv0 = h.make_ctx()
                pt = [[0.37 + 0.1 * k for k in range(len(row))] for row in iv0]
                o = _casadi_eval(f_real, pt[:f_real.n_in()])
                rp["casadi_outputs_at_sample"] = o
                rp["inputs"] = pt
            except Exception:
                pass
            records.append(dict(label="defined:path", status="refuted", harness=h.name, detail=str(e), replay=rp, cell="?"))
            break
        ctx = cell.ctx
        if getattr(cell, "error", None):
            # undefined operation with constant operands on this path; it counts only if the path is reachable
            if ctx.check(timeout_ms=20000) != "unsat":
                reachable += 1
                m = None
                try:
                    ctx.solver.set("timeout", 20000)
                    if str(ctx.solver.check()) == "sat":
                        from .solve import model_to_dict
                        m = model_to_dict(ctx.solver.model())
                except Exception:
                    m = None
                rp = dict(confirmed=True, note=cell.error)
                if m is not None and nclaim % (shard[1] if shard else 1) == (shard[0] if shard else 0):
                    try:
                        rp = replay(h, f_real, ctx.in_vals, getattr(ctx, "aux", {}), None, "defined:path", m, ctx)
                        rp["note"] = cell.error
                    except Exception as e:
                        rp = dict(confirmed=True, note=f"{cell.error} (replay failed: {e})")
                if not rp.get("confirmed"):
                    # the solver could not exclude this cell, but its model does not reach it on the real code
                    # (fresh inverse-trig angles are only loosely tied to their sines): nothing is claimed for it
                    stats["cells_unconfirmed_undefined"] = stats.get("cells_unconfirmed_undefined", 0) + 1
                elif shard is None or shard[0] == 0:
                    records.append(dict(label="defined:path[" + "".join("T" if d else "F" for d in cell.decisions) + "]",
                                        status="refuted" if rp.get("confirmed") else "spurious", harness=h.name,
                                        detail=cell.error, replay=rp, cell="".join("T" if d else "F" for d in cell.decisions)))
            continue
        if not h.cell_filter(cell):
            stats["cells_skipped"] += 1
            continue
        stats["cells"] += 1
        for kind, how in ctx.resolutions:
            k = f"{kind}:{how}"
            stats["resolutions"][k] = stats["resolutions"].get(k, 0) + 1
        outs = [ir.out_dense(i, cell.outs[i], Val(0)) for i in range(ir.n_out)]
        _, in_vals = None, cell.in_vals if hasattr(cell, "in_vals") else None
        in_vals = ctx.in_vals
        aux = getattr(ctx, "aux", {})
        try:
            cl = h.claims(outs, in_vals, aux)
        except Undefined as e:
            records.append(dict(label="claims", status="crash", detail=str(e), harness=h.name))
            continue
        if h.defined == "prove":
            for k, b in enumerate(cell.dom.divs):
                cl.append(Claim(f"defined:div{k}", b, 0, "ne"))
            for k, (kind, fml) in enumerate(ctx.defs):
                cl.append(("raw", f"defined:{kind}{k}", fml))
        else:
            for b in cell.dom.divs:
                for (t, p) in b.nf.values():
                    ctx.axiom(t != 0)
        # reachability twin: the cell must be satisfiable
        r = ctx.check(timeout_ms=10000)
        if r == "unsat":
            # a cell the feasibility checks could not prune in time but which is empty: drop it
            stats["cells"] -= 1
            stats["cells_late_pruned"] = stats.get("cells_late_pruned", 0) + 1
            continue
        reachable += 1
        for c in cl:
            nclaim += 1
            if shard is not None and (nclaim % shard[1]) != shard[0]:
                continue
            if isinstance(c, tuple):
                _, label, fml = c
                kindc = "raw"
            else:
                label, fml, kindc = c.label, claim_formula(c), c.kind
            extra = tuple(getattr(c, "extra", ())) + tuple(getattr(h, "defined_extra", ()) if label.startswith("defined:") else ())
            res = prove(ctx, fml, h.timeout_ms, extra=extra, with_pc=("auto" if not extra else True))
            rec = dict(label=label, status=res["status"], t=round(res["t"], 4),
                       cell="".join("T" if d else "F" for d in cell.decisions), harness=h.name)
            if res["status"] == "refuted":
                if kindc == "raw" and not label.startswith("defined:"):
                    rec["replay"] = dict(confirmed=True, note="definedness side condition", model={k: str(v) for k, v in res["model"].items() if "!" not in k})
                else:
                    rp = replay(h, f_real, in_vals, aux, None, label, res["model"], ctx)
                    if not rp.get("confirmed") and kindc == "eq":
                        # the solver's witness may violate the identity by less than the replay tolerance (e.g. a point
                        # just inside the affected region): ask for a witness with a margin and replay that one
                        for margin in (Fraction(1, 10 ** 3), Fraction(1, 10 ** 6)):
                            d_ = lift(c.lhs) - lift(c.rhs)
                            weak = z3.And(V.le(d_, Val(margin)), V.ge(d_, Val(-margin)))
                            if c.guard is not None:
                                gs = c.guard if isinstance(c.guard, list) else [c.guard]
                                weak = z3.Implies(z3.And(*[_REL[gk](gl, gr) for (gl, gk, gr) in gs]), weak)
                            refine = tuple(h.refine(ctx)) if hasattr(h, "refine") else ()
                            r2 = prove(ctx, weak, min(h.timeout_ms, 30000), extra=extra + refine, with_pc=True)
                            if r2["status"] == "refuted":
                                rp2 = replay(h, f_real, in_vals, aux, None, label, r2["model"], ctx)
                                if rp2.get("confirmed"):
                                    rp, res = rp2, r2
                                    break
                    rec["replay"] = rp
                    rec["model"] = {k: str(v) for k, v in res["model"].items() if "!" not in k}
                if not rec["replay"].get("confirmed") and getattr(h, "sample_on_spurious", False) and kindc != "raw":
                    # modular (cut) harnesses: the solver's witness fixes the cut symbols, which the real inputs of the
                    # replay do not determine; look for real inputs on which the real code violates the same claim
                    names_ = sorted(set(val_vars([v for row in in_vals for v in row])) | set(val_vars(_collect_vals(aux))))
                    for _try in range(24):
                        fake = {n: Fraction(rng.choice([-1, 1]) * rng.randint(20, 190), 100) for n in names_ if "!" not in n}
                        try:
                            rp = replay(h, f_real, in_vals, aux, None, label, fake, ctx)
                        except Exception:
                            continue
                        if rp.get("confirmed") and rp.get("diff") == rp.get("diff"):
                            rp["note"] = "the solver's witness lives on the cut symbols; violating real input found by sampling and confirmed on the real code"
                            rec["replay"] = rp
                            break
                if not rec["replay"].get("confirmed"):
                    rec["status"] = "spurious"
            elif res["status"] == "unknown":
                rec["reason"] = res.get("reason")
                for ac in (getattr(c, "alt", ()) if not isinstance(c, tuple) else ()):
                    r2 = prove(ctx, claim_formula(ac), h.timeout_ms, extra=extra)
                    if r2["status"] == "proved":
                        rec["status"] = "proved"
                        rec["via"] = ac.label
                        rec["t"] = round(rec["t"] + r2["t"], 4)
                        break
                if rec["status"] == "unknown" and kindc != "raw":
                    # the solver neither proved nor refuted the claim within its cap: look for a concrete input on which
                    # the real code violates it (a confirmed counterexample is a violation however it was found; the
                    # absence of one leaves the obligation inconclusive)
                    names_ = sorted(set(val_vars([v for row in in_vals for v in row])) | set(val_vars(_collect_vals(aux))))
                    for _try in range(12):
                        fake = {n: Fraction(rng.choice([-1, 1]) * rng.randint(20, 190), 100) for n in names_ if "!" not in n}
                        for n in list(fake):
                            if n.endswith("_t") or n.endswith("_u"):
                                fake[n] = abs(fake[n])
                        try:
                            rp = replay(h, f_real, in_vals, aux, None, label, fake, ctx)
                        except Exception:
                            continue
                        if rp.get("confirmed"):
                            rp["note"] = "solver answered unknown; violating input found by sampling and confirmed on the real code"
                            rec["status"] = "refuted"
                            rec["replay"] = rp
                            break
            records.append(rec)
            if rec["status"] == "refuted" and os.environ.get("VERIF_FAILFAST"):
                failfast = True
                break
        stats["queries"] += ctx.queries
        stats["solver_time"] += ctx.solver_time
        stats["unknown_feas"] += ctx.unknowns
        if failfast:
            break
    from .solve import CROSS
    stats["cross"] = dict(CROSS)
    if reachable == 0 and stats["cells_skipped"] == 0:
        # reachability twin failed for every cell: the harness proves nothing
        records.append(dict(label="reachability", status="vacuous", harness=h.name, cell="all"))
    stats["wall"] = time.time() - t_start
    return dict(records=records, stats=stats)
