"""Oracle side (trusted mathematics, DESIGN.md §1.4-1.5): rational charts, angle lattices,
closed forms of matrix exponentials, exact meaning of the small-angle series keys."""
from __future__ import annotations
from fractions import Fraction
import z3
from .val import Val, lift, Q
from . import val as V
from .enc import Angle, Ctx


# ---- charts ---------------------------------------------------------------------------------

def s2_chart(a: Val, b: Val):
    """stereographic chart of the unit sphere (misses (0,0,-1))"""
    d = 1 + a * a + b * b
    return [2 * a / d, 2 * b / d, (1 - a * a - b * b) / d]


def s3_chart(u1: Val, u2: Val, u3: Val, sign=1):
    """stereographic chart of unit quaternions (misses (-1,0,0,0)); sign=-1 gives the antipode"""
    n = u1 * u1 + u2 * u2 + u3 * u3
    d = 1 + n
    q = [(1 - n) / d, 2 * u1 / d, 2 * u2 / d, 2 * u3 / d]
    return q if sign == 1 else [-x for x in q]


def weier(u: Val):
    """(sin, cos) of the angle whose half-angle tangent is u"""
    d = 1 + u * u
    return 2 * u / d, (1 - u * u) / d


def quat_to_R(q):
    a, b, c, d = q
    return [[a * a + b * b - c * c - d * d, 2 * (b * c - a * d), 2 * (b * d + a * c)],
            [2 * (b * c + a * d), a * a + c * c - b * b - d * d, 2 * (c * d - a * b)],
            [2 * (b * d - a * c), 2 * (c * d + a * b), a * a + d * d - b * b - c * c]]


def quat_mul(q, p):
    return [q[0] * p[0] - q[1] * p[1] - q[2] * p[2] - q[3] * p[3],
            q[1] * p[0] + q[0] * p[1] - q[3] * p[2] + q[2] * p[3],
            q[2] * p[0] + q[3] * p[1] + q[0] * p[2] - q[1] * p[3],
            q[3] * p[0] - q[2] * p[1] + q[1] * p[2] + q[0] * p[3]]


def rot_axis_angle(n, s: Val, c: Val):
    """Rodrigues: R = I + s N + (1-c) N^2 for a unit axis n and (sin, cos) of the angle"""
    N = V.hat(n)
    N2 = V.mat_mul(N, N)
    return V.mat_add(V.mat_eye(3), V.mat_add(V.mat_scale(s, N), V.mat_scale(1 - c, N2)))


def rotx(s, c):
    return [[1, 0, 0], [0, c, -s], [0, s, c]]


def roty(s, c):
    return [[c, 0, s], [0, 1, 0], [-s, 0, c]]


def rotz(s, c):
    return [[c, -s, 0], [s, c, 0], [0, 0, 1]]


# ---- angle lattices -------------------------------------------------------------------------

class Lattice:
    """An oracle angle th with rational (sin, cos) of th and th/2 and tan of th/4 in the free
    variable t = tan(th/4)  (kind='quarter'), or (sin, cos) of th and tan(th/2) in u = tan(th/2)
    (kind='half').  Range: th in (0, 2pi) for 'quarter' [t > 0]; th in (-pi, pi) for 'half'
    unless positive=True [u > 0, th in (0, pi)]."""

    def __init__(self, ctx: Ctx, name: str, kind="quarter", below_pi=False, positive=True, margin=None):
        self.name = name
        self.kind = kind
        self.th = Val.var(name)
        th = self.th
        pi = ctx.pi()
        if kind == "quarter":
            self.t = Val.var(name + "_t")
            t = self.t
            self.tan4 = t
            self.s2, self.c2 = weier(t)
            self.s = 2 * self.s2 * self.c2
            self.c = self.c2 * self.c2 - self.s2 * self.s2
            ctx.assume(t.num_term() > 0, th.num_term() > 0, V.lt(th, 2 * pi))
            # monotone link between th and t at the landmark th = pi (t = 1)
            ctx.assume(z3.And(z3.Implies(t.num_term() < 1, V.lt(th, pi)),
                              z3.Implies(t.num_term() > 1, V.gt(th, pi)),
                              z3.Implies(t.num_term() == 1, V.eq(th, pi))))
            f4 = {"atan", "asin", "acos", "atan2"}  # th/4 in (0, pi/2)
            f2 = {"acos", "atan2"}  # th/2 in (0, pi)
            f1 = set()
            if below_pi:
                ctx.assume(t.num_term() < 1)
                f2 |= {"asin", "atan"}
                f1 |= {"acos", "atan2"}
            self.A4 = Angle(th / 4, tan=t, flags=f4, name=name + "/4")
            self.A2 = Angle(th / 2, sin=self.s2, cos=self.c2, flags=f2, name=name + "/2")
            self.A1 = Angle(th, sin=self.s, cos=self.c, flags=f1, name=name)
            ctx.angles += [self.A1, self.A2, self.A4]
        elif kind == "half":
            self.u = Val.var(name + "_u")
            u = self.u
            self.tan2 = u
            self.s, self.c = weier(u)
            f2 = {"atan", "asin"}
            f1 = {"atan2"}
            if positive:
                ctx.assume(u.num_term() > 0, th.num_term() > 0, V.lt(th, pi))
                f2 |= {"acos", "atan2"}
                f1 |= {"acos"}
                ctx.assume(z3.And(z3.Implies(u.num_term() < 1, V.lt(th * 2, pi)),
                                  z3.Implies(u.num_term() > 1, V.gt(th * 2, pi)),
                                  z3.Implies(u.num_term() == 1, V.eq(th * 2, pi))))
            else:
                ctx.assume(V.gt(th, -pi), V.lt(th, pi))
                ctx.assume(z3.And(z3.Implies(u.num_term() > 0, th.num_term() > 0),
                                  z3.Implies(u.num_term() < 0, th.num_term() < 0),
                                  z3.Implies(u.num_term() == 0, th.num_term() == 0),
                                  z3.Implies(u.num_term() < 1, V.lt(th * 2, pi)),
                                  z3.Implies(u.num_term() > 1, V.gt(th * 2, pi)),
                                  z3.Implies(u.num_term() > -1, V.gt(th * 2, -pi)),
                                  z3.Implies(u.num_term() < -1, V.lt(th * 2, -pi))))
            self.A2 = Angle(th / 2, tan=u, flags=f2, name=name + "/2")
            self.A1 = Angle(th, sin=self.s, cos=self.c, flags=f1, name=name)
            ctx.angles += [self.A1, self.A2]
        else:
            raise ValueError(kind)
        if positive:
            ctx.roots.append(th)
            ctx.roots.append(th / 2)
            if kind == "quarter":
                ctx.roots.append(self.t)
            else:
                ctx.roots.append(self.u)

    def concretize(self, env):
        """make env consistent: th := 4 atan(t) / 2 atan(u)  (env: name -> mp number)"""
        import mpmath as mp
        if self.kind == "quarter":
            k = self.name + "_t"
            if k not in env:
                env[k] = mp.tan(env[self.name] / 4)
            env[self.name] = 4 * mp.atan(env[k])
        else:
            k = self.name + "_u"
            if k not in env:
                env[k] = mp.tan(env[self.name] / 2)
            env[self.name] = 2 * mp.atan(env[k])


# ---- meaning of the series keys ---------------------------------------------------------------

def series_oracle(key, x: Val, s: Val, c: Val, tan4=None, atan_x=None):
    """exact function denoted by a SERIES/SQUARED_SERIES key at angle x (x != 0), with s = sin x,
    c = cos x, tan4 = tan(x/4), atan_x = atan(x)"""
    x2 = x * x
    if key == "cos(x)":
        return c
    if key == "sin(x)/x":
        return s / x
    if key == "x/sin(x)":
        return x / s
    if key == "(1 - cos(x))/x":
        return (1 - c) / x
    if key == "(1 - cos(x))/x^2":
        return (1 - c) / x2
    if key == "(x - sin(x))/x^3":
        return (x - s) / (x2 * x)
    if key == "(1 - x*sin(x)/(2*(1 - cos(x))))/x^2":
        return (1 - x * s / (2 * (1 - c))) / x2
    if key == "(-x^2/2 - cos(x) + 1)/x^2":
        return (-x2 / 2 - c + 1) / x2
    if key == "(x^2/2 + cos(x) - 1)/x^4":
        return (x2 / 2 + c - 1) / (x2 * x2)
    if key == "1/x^2":
        return 1 / x2
    if key == "(2 - x cos(x))/(2 x^2)":
        return (2 - x * c) / (2 * x2)
    if key == "1/x^2 + sin(x)/(2 x (cos(x) - 1))":
        return 1 / x2 + s / (2 * x * (c - 1))
    if key == "(x^2 + 2 cos(x) - 2)/(2 x^4)":
        return (x2 + 2 * c - 2) / (2 * x2 * x2)
    if key == "(x cos(x) + 2 x - 3 sin(x))/(2 x^5)":
        return (x * c + 2 * x - 3 * s) / (2 * x2 * x2 * x)
    if key == "(x^2 + x sin(x) + 4 cos(x) - 4)/(2 x^6)":
        return (x2 + x * s + 4 * c - 4) / (2 * x2 * x2 * x2)
    if key == "(2 - 2 cos(x) - x sin(x))/(2 x^4))":
        return (2 - 2 * c - x * s) / (2 * x2 * x2)
    if key == "tan(x/4)/x":
        if tan4 is None:
            raise KeyError("tan4 needed")
        return tan4 / x
    if key == "4 atan(x)/x":
        if atan_x is None:
            raise KeyError("atan_x needed")
        return 4 * atan_x / x
    raise KeyError(key)


SERIES_KEYS = [
    "cos(x)", "sin(x)/x", "x/sin(x)", "(1 - cos(x))/x", "(1 - cos(x))/x^2", "(x - sin(x))/x^3",
    "(1 - x*sin(x)/(2*(1 - cos(x))))/x^2", "(-x^2/2 - cos(x) + 1)/x^2", "(x^2/2 + cos(x) - 1)/x^4",
    "1/x^2", "(2 - x cos(x))/(2 x^2)", "1/x^2 + sin(x)/(2 x (cos(x) - 1))",
    "(x^2 + 2 cos(x) - 2)/(2 x^4)", "(x cos(x) + 2 x - 3 sin(x))/(2 x^5)",
    "(x^2 + x sin(x) + 4 cos(x) - 4)/(2 x^6)", "(2 - 2 cos(x) - x sin(x))/(2 x^4))",
    "tan(x/4)/x", "4 atan(x)/x",
]

# tan(pi/4 - 0.0005) rounded up: |u| <= this  <=  |pitch| <= pi/2 - 1e-3 (u = tan(pitch/2))
PI_TAN_BAND = Fraction(999000499666874868, 10 ** 18)


# ---- dual numbers (value, derivative) generic over the number type: derivative of the series
#      oracles by the chain rule (trusted calculus: sin' = cos, cos' = -sin, tan' = 1 + tan^2,
#      atan' = 1/(1+x^2)) --------------------------------------------------------------------

class Dual:
    __slots__ = ("v", "d")

    def __init__(self, v, d=0):
        self.v, self.d = v, d

    @staticmethod
    def lift(x):
        return x if isinstance(x, Dual) else Dual(x, 0)

    def __add__(self, o):
        o = Dual.lift(o)
        return Dual(self.v + o.v, self.d + o.d)

    __radd__ = __add__

    def __neg__(self):
        return Dual(-self.v, -self.d)

    def __sub__(self, o):
        o = Dual.lift(o)
        return Dual(self.v - o.v, self.d - o.d)

    def __rsub__(self, o):
        return Dual.lift(o) - self

    def __mul__(self, o):
        o = Dual.lift(o)
        return Dual(self.v * o.v, self.d * o.v + self.v * o.d)

    __rmul__ = __mul__

    def __truediv__(self, o):
        o = Dual.lift(o)
        return Dual(self.v / o.v, (self.d * o.v - self.v * o.d) / (o.v * o.v))

    def __rtruediv__(self, o):
        return Dual.lift(o) / self


def series_oracle_with_derivative(key, x, s, c, tan4=None, atan_x=None, squared=False):
    """(f(x), df/darg) where arg = x (plain series) or arg = x^2 (squared series)"""
    X = Dual(x, 1)
    S = Dual(s, c) if s is not None else None
    C = Dual(c, -s) if c is not None else None
    T4 = Dual(tan4, (1 + tan4 * tan4) / 4) if tan4 is not None else None
    AT = Dual(atan_x, 1 / (1 + x * x)) if atan_x is not None else None
    r = series_oracle(key, X, S, C, tan4=T4, atan_x=AT)
    r = Dual.lift(r)
    if squared:
        return r.v, r.d / (2 * x)
    return r.v, r.d


# limits of the series keys at x = 0 (trusted: leading Maclaurin coefficient); None = pole
SERIES_LIMIT = {
    "cos(x)": Fraction(1), "sin(x)/x": Fraction(1), "x/sin(x)": Fraction(1), "(1 - cos(x))/x": Fraction(0),
    "(1 - cos(x))/x^2": Fraction(1, 2), "(x - sin(x))/x^3": Fraction(1, 6),
    "(1 - x*sin(x)/(2*(1 - cos(x))))/x^2": Fraction(1, 12), "(-x^2/2 - cos(x) + 1)/x^2": Fraction(0),
    "(x^2/2 + cos(x) - 1)/x^4": Fraction(1, 24), "1/x^2": None, "(2 - x cos(x))/(2 x^2)": None,
    "1/x^2 + sin(x)/(2 x (cos(x) - 1))": Fraction(1, 12), "(x^2 + 2 cos(x) - 2)/(2 x^4)": Fraction(1, 24),
    "(x cos(x) + 2 x - 3 sin(x))/(2 x^5)": Fraction(1, 120),
    "(x^2 + x sin(x) + 4 cos(x) - 4)/(2 x^6)": Fraction(1, 720),
    "(2 - 2 cos(x) - x sin(x))/(2 x^4))": Fraction(1, 24), "tan(x/4)/x": Fraction(1, 4), "4 atan(x)/x": Fraction(4),
}
