"""Front end C: SymPy expression trees -> the same value domain as the CasADi encoder, with the
*standard mathematical meaning* of every node (independent reference semantics for C19).

Generic over the domain object D used by vf.enc.evaluate (ValDomain for SMT, MpDomain for replay)."""
from __future__ import annotations
from fractions import Fraction
import sympy as sp
import mpmath as mp

from .enc import Unsupported, Undefined


class SymTranslator:
    def __init__(self, D, symbols, f_ref=None):
        """symbols: name -> domain value;  f_ref: user function name -> python callable on domain values"""
        self.D = D
        self.symbols = symbols
        self.f_ref = f_ref or {}
        self.memo = {}

    def num(self, fr: Fraction, literal=False):
        """exact rational; a floating literal goes through the domain's constant reader (same snapping as
        the CasADi side)"""
        if literal:
            return self.D.const(float(fr))
        return self.D.exact(fr)

    def tr(self, e):
        D = self.D
        if isinstance(e, bool):
            return self.num(Fraction(1 if e else 0))
        if isinstance(e, (int,)):
            return self.num(Fraction(e))
        if isinstance(e, float):
            return self.num(Fraction(e), literal=True)
        if isinstance(e, sp.MatrixBase):
            raise Unsupported("matrix handled by caller")
        if e.is_Symbol:
            n = str(e)
            if n not in self.symbols:
                raise Unsupported(f"unknown symbol {n}")
            return self.symbols[n]
        if e.is_Integer:
            return self.num(Fraction(int(e)))
        if e.is_Rational:
            return self.num(Fraction(int(e.p), int(e.q)))
        if e.is_Float:
            # the value of the literal: its binary double if it fits, else the exact decimal
            return self.num(Fraction(float(e)), literal=True)
        if e is sp.pi:
            return self.num(Fraction(float(sp.pi)), literal=True)
        if e.is_Add:
            args = [self.tr(a) for a in e.args]
            r = args[0]
            for a in args[1:]:
                r = D.add(r, a)
            return r
        if e.is_Mul:
            args = [self.tr(a) for a in e.args]
            r = args[0]
            for a in args[1:]:
                r = D.mul(r, a)
            return r
        if e.is_Pow:
            b, ex = e.args
            bv = self.tr(b)
            if ex.is_Rational:
                fr = Fraction(int(ex.p), int(ex.q))
                return D.pow(bv, self.num(fr))
            if ex.is_Float:
                return D.pow(bv, self.num(Fraction(float(ex)), literal=True))
            return D.pow(bv, self.tr(ex))
        f = e.func
        name = f.__name__ if hasattr(f, "__name__") else str(f)
        un = {"sin": "sin", "cos": "cos", "tan": "tan", "asin": "asin", "acos": "acos", "atan": "atan",
              "exp": "exp", "log": "log", "sinh": "sinh", "cosh": "cosh", "tanh": "tanh", "asinh": "asinh",
              "acosh": "acosh", "atanh": "atanh", "erf": "erf"}
        if name in un and len(e.args) == 1:
            a = self.tr(e.args[0])
            return getattr(D, un[name])(a)
        if name == "atan2":
            return D.atan2(self.tr(e.args[0]), self.tr(e.args[1]))
        if name == "Abs":
            return D.fabs(self.tr(e.args[0]))
        if name == "sign":
            return D.sign(self.tr(e.args[0]))
        if name == "floor":
            return D.floor(self.tr(e.args[0]))
        if name == "ceiling":
            return D.ceil(self.tr(e.args[0]))
        if name == "Mod":
            # SymPy Mod(a, b): result has the sign of b:  a - b*floor(a/b)
            a, b = self.tr(e.args[0]), self.tr(e.args[1])
            return D.sub(a, D.mul(b, D.floor(D.div(a, b))))
        if name == "Min":
            args = [self.tr(a) for a in e.args]
            r = args[0]
            for a in args[1:]:
                r = D.fmin(r, a)
            return r
        if name == "Max":
            args = [self.tr(a) for a in e.args]
            r = args[0]
            for a in args[1:]:
                r = D.fmax(r, a)
            return r
        if name == "Piecewise":
            pairs = [(pr.args[0], pr.args[1]) for pr in e.args]
            if hasattr(D, "ite0"):  # ite mode: nested If from the last branch backwards
                import z3
                acc = None
                for val, cond in reversed(pairs):
                    v = D.r(self.tr(val))
                    if cond is sp.true or cond == True:  # noqa
                        acc = v
                    else:
                        c = D.b(self.boolean(cond))
                        # SymPy leaves a Piecewise without a matching branch undefined (nan): use a fresh value
                        if acc is None:
                            D.fresh += 1
                            acc = z3.Real(f"undef!{D.fresh}")
                        acc = z3.If(c, v, acc)
                return ("r", acc)
            for val, cond in pairs:  # first branch whose condition holds
                if cond is sp.true or cond == True:  # noqa
                    return self.tr(val)
                if D.truth(self.boolean(cond)):
                    return self.tr(val)
            raise Undefined("Piecewise without a default branch fell through")
        if name in self.f_ref:
            return self.f_ref[name](*[self.tr(a) for a in e.args])
        if isinstance(e, (sp.Rel, sp.logic.boolalg.BooleanFunction)) or e in (sp.true, sp.false):
            return self.boolean(e)
        raise Unsupported(f"sympy node {name}")

    def boolean(self, e):
        """0/1 value of a SymPy Boolean / relational"""
        D = self.D
        if e is sp.true:
            return self.num(Fraction(1))
        if e is sp.false:
            return self.num(Fraction(0))
        if isinstance(e, sp.StrictLessThan):
            return D.lt(self.tr(e.args[0]), self.tr(e.args[1]))
        if isinstance(e, sp.LessThan):
            return D.le(self.tr(e.args[0]), self.tr(e.args[1]))
        if isinstance(e, sp.StrictGreaterThan):
            return D.lt(self.tr(e.args[1]), self.tr(e.args[0]))
        if isinstance(e, sp.GreaterThan):
            return D.le(self.tr(e.args[1]), self.tr(e.args[0]))
        if isinstance(e, sp.Equality):
            return D.eq(self.tr(e.args[0]), self.tr(e.args[1]))
        if isinstance(e, sp.Unequality):
            return D.ne(self.tr(e.args[0]), self.tr(e.args[1]))
        if isinstance(e, sp.Not):
            return D.not_(self.boolean(e.args[0]))
        if isinstance(e, sp.And):
            r = self.boolean(e.args[0])
            for a in e.args[1:]:
                r = D.and_(r, self.boolean(a))
            return r
        if isinstance(e, sp.Or):
            r = self.boolean(e.args[0])
            for a in e.args[1:]:
                r = D.or_(r, self.boolean(a))
            return r
        # a numeric expression used as a condition: non-zero is true
        v = self.tr(e)
        return D.ne(v, self.num(Fraction(0)))
