"""Query discharge, model extraction, numeric evaluation of z3 terms, job scheduler."""
from __future__ import annotations
import os
import time
import json
import traceback
import multiprocessing as mpx
from fractions import Fraction
import z3
import mpmath as mp

from .val import Val

mp.mp.dps = 50


# ---------------------------------------------------------------------------------------------
# proving one claim
# ---------------------------------------------------------------------------------------------

def model_to_dict(m: z3.ModelRef):
    d = {}
    for decl in m.decls():
        if decl.arity() != 0:
            continue
        v = m[decl]
        d[decl.name()] = z3num(v)
    return d


def z3num(v):
    """z3 numeral -> Fraction (algebraic numbers approximated to 40 digits)"""
    if z3.is_int_value(v):
        return Fraction(v.as_long())
    if z3.is_rational_value(v):
        return Fraction(v.numerator_as_long(), v.denominator_as_long())
    if z3.is_algebraic_value(v):
        a = v.approx(40)
        return Fraction(a.numerator_as_long(), a.denominator_as_long())
    if z3.is_true(v):
        return Fraction(1)
    if z3.is_false(v):
        return Fraction(0)
    raise ValueError(f"not a numeral: {v}")


def prove(ctx, claim, timeout_ms=20000, with_pc="auto", extra=()):
    """Try to prove `claim` under ctx.pre + ctx.axioms (+ ctx.pc).
    Returns dict(status=proved|refuted|unknown, model, t, used_pc)."""
    t0 = time.time()
    # attempt levels: 0 = claim alone (pure identity), 1 = + pre/axioms, 2 = + path condition
    levels = [0, 1, 2] if with_pc == "auto" else ([2] if with_pc else [1])
    if not ctx.pc and 2 in levels and len(levels) > 1:
        levels.remove(2)
    last = None
    if len(levels) > 1 and 0 in levels and ctx.axioms:
        # a claim that mentions fresh (axiom-defined) variables cannot be a pure identity
        if any("!" in n for n in free_vars([claim])):
            levels.remove(0)
    if getattr(ctx, "sign_facts", False):
        # opt-in extra level: preconditions + path condition + sign facts of the fresh atoms only (the light context has
        # none of the large defining equations; fewer constraints, so unsat here implies unsat in the full context)
        s = z3.Solver()
        tmo = max(1000, timeout_ms // 3)
        s.set("timeout", int(tmo))
        for f in ctx.light.assertions():
            s.add(f)
        for f in extra:
            s.add(f)
        s.add(z3.Not(claim))
        from .enc import guarded_check
        r = guarded_check(s, int(tmo))
        ctx.queries += 1
        if r == z3.unsat:
            dt = time.time() - t0
            ctx.solver_time += dt
            cross_check(s, "unsat")
            return dict(status="proved", model=None, t=dt, used_pc=True, level="light")
    for k, lvl in enumerate(levels):
        final = (k == len(levels) - 1)
        s = z3.Solver()
        tmo = timeout_ms if final else (min(3000, timeout_ms) if lvl == 0 else max(1000, timeout_ms // 3))
        s.set("timeout", int(tmo))
        if lvl >= 1:
            for f in ctx.pre:
                s.add(f)
            for f in ctx.axioms:
                s.add(f)
        if lvl >= 2:
            for f in ctx.pc:
                s.add(f)
        if lvl >= 1:
            for f in extra:
                s.add(f)
        s.add(z3.Not(claim))
        from .enc import guarded_check
        r = guarded_check(s, int(tmo))
        ctx.queries += 1
        if r == z3.unsat:
            dt = time.time() - t0
            ctx.solver_time += dt
            cross_check(s, "unsat")
            return dict(status="proved", model=None, t=dt, used_pc=(lvl >= 2), level=lvl)
        if r == z3.sat:
            if final:
                try:
                    md = model_to_dict(s.model())
                except Exception as e:  # pragma: no cover
                    md = {"_error": str(e)}
                dt = time.time() - t0
                ctx.solver_time += dt
                return dict(status="refuted", model=md, t=dt, used_pc=(lvl >= 2), level=lvl)
            last = f"sat-at-level-{lvl}"
        else:
            last = "unknown:" + s.reason_unknown()
            if lvl == 0 and z3.is_not(z3.Not(claim)) and z3.is_eq(claim):
                # pure polynomial identity the solver's simplifier could not expand: normalise exactly
                # (monomial dictionary) and ask again about the normalised polynomial
                try:
                    from .poly import normalize_eq
                    a, b = claim.children()
                    nt, nterms = normalize_eq(a - b, budget_s=min(90.0, timeout_ms / 1000.0))
                    s2 = z3.Solver()
                    s2.set("timeout", int(min(30000, timeout_ms)))
                    s2.add(nt != 0)
                    ctx.queries += 1
                    if s2.check() == z3.unsat:
                        dt = time.time() - t0
                        ctx.solver_time += dt
                        return dict(status="proved", model=None, t=dt, used_pc=False, level="0-normalised",
                                    poly_terms=nterms)
                except Exception as e:  # TooBig / unsupported node: fall through to the next level
                    last += f" (normalisation: {type(e).__name__})"
    dt = time.time() - t0
    ctx.solver_time += dt
    return dict(status="unknown", model=None, t=dt, used_pc=True, reason=last)


CROSS = {"checked": 0, "agree": 0, "disagree": 0, "no_answer": 0, "samples": []}


def cross_check(solver, expected, label=""):
    """thorough tier: re-discharge a deterministic sample of proved obligations with an independent solver
    (cvc5 binary) on the SMT-LIB2 dump of the very same query.  A sat/unsat disagreement is a harness error."""
    import hashlib
    import subprocess
    import tempfile
    if os.environ.get("VERIF_TIER_ACTIVE") != "thorough":
        return
    txt = solver.to_smt2()
    h = int(hashlib.sha1(txt.encode()).hexdigest(), 16)
    if h % 8 != 0 or len(txt) > 400000:
        return
    txt = txt.replace("(check-sat)", "(check-sat)\n(exit)")
    os.makedirs("/verif/.work", exist_ok=True)
    with tempfile.NamedTemporaryFile("w", suffix=".smt2", dir="/verif/.work", delete=False) as fh:
        fh.write("(set-logic ALL)\n" + txt)
        path = fh.name
    try:
        p = subprocess.run(["cvc5", "--lang", "smt2", "--tlimit=15000", path], capture_output=True, text=True, timeout=40)
        out = (p.stdout or "").strip().splitlines()
        ans = out[0] if out else ""
    except Exception:
        ans = ""
    finally:
        try:
            os.remove(path)
        except OSError:
            pass
    CROSS["checked"] += 1
    if ans in ("sat", "unsat"):
        if ans == expected:
            CROSS["agree"] += 1
        else:
            CROSS["disagree"] += 1
            CROSS["samples"].append(dict(label=label, z3=expected, cvc5=ans))
    else:
        CROSS["no_answer"] += 1


def to_smt2(ctx, claim, use_pc=True, extra=()):
    s = z3.Solver()
    for f in ctx.pre + ctx.axioms + (ctx.pc if use_pc else []) + list(extra):
        s.add(f)
    s.add(z3.Not(claim))
    return s.to_smt2()


# ---------------------------------------------------------------------------------------------
# numeric evaluation of z3 terms / Vals under an assignment {name: mp number}
# ---------------------------------------------------------------------------------------------

def eval_term(t, env, cache=None, exact=False):
    """evaluate a z3 arithmetic/bool term; env maps constant names to numbers"""
    if cache is None:
        cache = {}
    stack = [t]
    while stack:
        e = stack[-1]
        i = e.get_id()
        if i in cache:
            stack.pop()
            continue
        if z3.is_rational_value(e) or z3.is_int_value(e):
            fr = z3num(e)
            cache[i] = fr if exact else mp.mpf(fr.numerator) / fr.denominator
            stack.pop()
            continue
        if z3.is_algebraic_value(e):
            fr = z3num(e)
            cache[i] = fr if exact else mp.mpf(fr.numerator) / fr.denominator
            stack.pop()
            continue
        if z3.is_const(e) and e.decl().kind() == z3.Z3_OP_UNINTERPRETED:
            n = e.decl().name()
            if n not in env:
                raise KeyError(n)
            cache[i] = env[n]
            stack.pop()
            continue
        ch = e.children()
        miss = [c for c in ch if c.get_id() not in cache]
        if miss:
            stack.extend(miss)
            continue
        a = [cache[c.get_id()] for c in ch]
        k = e.decl().kind()
        if k == z3.Z3_OP_ADD:
            r = a[0]
            for x in a[1:]:
                r = r + x
        elif k == z3.Z3_OP_MUL:
            r = a[0]
            for x in a[1:]:
                r = r * x
        elif k == z3.Z3_OP_SUB:
            r = a[0]
            for x in a[1:]:
                r = r - x
        elif k == z3.Z3_OP_UMINUS:
            r = -a[0]
        elif k == z3.Z3_OP_DIV:
            r = a[0] / a[1]
        elif k == z3.Z3_OP_POWER:
            r = a[0] ** int(a[1])
        elif k == z3.Z3_OP_TO_REAL:
            r = a[0]
        elif k == z3.Z3_OP_ITE:
            r = a[1] if a[0] else a[2]
        elif k == z3.Z3_OP_LT:
            r = a[0] < a[1]
        elif k == z3.Z3_OP_LE:
            r = a[0] <= a[1]
        elif k == z3.Z3_OP_GT:
            r = a[0] > a[1]
        elif k == z3.Z3_OP_GE:
            r = a[0] >= a[1]
        elif k == z3.Z3_OP_EQ:
            r = a[0] == a[1]
        elif k == z3.Z3_OP_DISTINCT:
            r = a[0] != a[1]
        elif k == z3.Z3_OP_NOT:
            r = not a[0]
        elif k == z3.Z3_OP_AND:
            r = all(a)
        elif k == z3.Z3_OP_OR:
            r = any(a)
        elif k == z3.Z3_OP_IMPLIES:
            r = (not a[0]) or a[1]
        elif k == z3.Z3_OP_TRUE:
            r = True
        elif k == z3.Z3_OP_FALSE:
            r = False
        else:
            raise NotImplementedError(f"eval_term: {e.decl().name()}")
        cache[i] = r
        stack.pop()
    return cache[t.get_id()]


def eval_val(v: Val, env, cache=None, exact=False):
    if cache is None:
        cache = {}
    r = v.c if exact else mp.mpf(v.c.numerator) / v.c.denominator
    for (t, p) in v.nf.values():
        r = r * eval_term(t, env, cache, exact) ** p
    for (t, p) in v.df.values():
        r = r / eval_term(t, env, cache, exact) ** p
    return r


def free_vars(terms):
    seen = set()
    out = {}
    stack = list(terms)
    while stack:
        e = stack.pop()
        i = e.get_id()
        if i in seen:
            continue
        seen.add(i)
        if z3.is_const(e) and e.decl().kind() == z3.Z3_OP_UNINTERPRETED:
            out[e.decl().name()] = e
        else:
            stack.extend(e.children())
    return out


def val_vars(vals):
    ts = []
    for v in vals:
        ts.extend(t for (t, p) in v.nf.values())
        ts.extend(t for (t, p) in v.df.values())
    return free_vars(ts)


# ---------------------------------------------------------------------------------------------
# job scheduler (process per job, hard timeout)
# ---------------------------------------------------------------------------------------------

def _job_main(conn, func, args):
    try:
        import sys
        sys.setrecursionlimit(100000)
        res = func(*args)
        conn.send(("ok", res))
    except BaseException as e:  # noqa
        conn.send(("err", f"{type(e).__name__}: {e}\n{traceback.format_exc()}"))
    finally:
        conn.close()


def run_jobs(jobs, nproc=None, job_timeout=600, progress=None):
    """jobs: list of (name, func, args).  Returns {name: ('ok', result) | ('err', msg) | ('timeout', None)}"""
    if nproc is None:
        nproc = int(os.environ.get("VERIF_NPROC", "0")) or min(16, os.cpu_count() or 4)
    ctxm = mpx.get_context("fork")
    pending = list(jobs)
    running = {}
    results = {}
    while pending or running:
        while pending and len(running) < nproc:
            name, func, args = pending.pop(0)
            pc, cc = ctxm.Pipe(duplex=False)
            p = ctxm.Process(target=_job_main, args=(cc, func, args))
            p.start()
            cc.close()
            running[name] = (p, pc, time.time())
        time.sleep(0.02)
        for name in list(running):
            p, pc, t0 = running[name]
            done = False
            if pc.poll():
                try:
                    results[name] = pc.recv()
                except EOFError:
                    results[name] = ("err", "worker died")
                done = True
            elif not p.is_alive():
                results[name] = ("err", f"worker exited with code {p.exitcode}")
                done = True
            elif time.time() - t0 > job_timeout:
                p.kill()
                results[name] = ("timeout", None)
                done = True
            if done:
                p.join(timeout=5)
                if p.is_alive():
                    p.kill()
                pc.close()
                del running[name]
                if progress:
                    progress(name, results[name][0], time.time() - t0)
    return results
