"""Equivalence of two straight-line programs in QF_UF (DESIGN.md §1.7, front end B).

Every operation is an uninterpreted function over one sort; constants are distinguished by their
bit pattern.  Two programs whose output terms are equal modulo congruence compute bit-identical
results under *any* deterministic semantics of the operations (IEEE doubles, libm, NaN/Inf in
unselected branches included).  Only exact IEEE commutativity of + and * (and of the symmetric
comparisons/logic ops) is used to normalise operand order; SQ(x) = x*x, TWICE(x) = x+x and
INV(x) = 1/x are read through their defining expressions (the shared `apply` dispatch)."""
from __future__ import annotations
import struct
import z3

from .enc import evaluate

COMMUTATIVE = {"add", "mul", "eq", "ne", "and_", "or_"}


class UFDomain:
    lazy_ite = False

    def __init__(self):
        self.S = z3.DeclareSort("V")
        self.funcs = {}
        self.consts = {}
        self.alive = []

    def fn(self, name, arity):
        k = (name, arity)
        if k not in self.funcs:
            self.funcs[k] = z3.Function(name, *([self.S] * (arity + 1)))
        return self.funcs[k]

    def const(self, x):
        bits = struct.pack(">d", float(x)).hex()
        if bits not in self.consts:
            self.consts[bits] = z3.Const(f"c_{bits}", self.S)
        return self.consts[bits]

    def inp(self, i, k):
        return z3.Const(f"in_{i}_{k}", self.S)

    def _ap(self, name, *a):
        a = list(a)
        if name in COMMUTATIVE:
            a.sort(key=lambda t: t.get_id())
        t = self.fn(name, len(a))(*a)
        self.alive.append(t)
        return t

    def ite0(self, c, v):
        return self._ap("ite0", c, v)

    def __getattr__(self, name):
        if name.startswith("_"):
            raise AttributeError(name)

        def op(*a):
            return self._ap(name, *a)
        return op


def uf_outputs(ir, D, input_map=None):
    """terms of all output non-zeros; input (i, k) -> D.inp(*input_map(i, k))"""
    ins = []
    for i in range(ir.n_in):
        row = []
        for k in range(ir.in_nnz[i]):
            a = (i, k) if input_map is None else input_map(i, k)
            row.append(D.inp(*a))
        ins.append(row)
    return evaluate(ir, ins, D)


def distinct_constants_axiom(D):
    cs = list(D.consts.values())
    return z3.Distinct(*cs) if len(cs) > 1 else z3.BoolVal(True)


def uf_equiv(termsA, termsB, D, timeout_ms=60000):
    """list of (index, 'unsat'|'sat'|'unknown') for pairwise equality of two term lists"""
    res = []
    for k, (a, b) in enumerate(zip(termsA, termsB)):
        s = z3.Solver()
        s.set("timeout", timeout_ms)
        s.add(a != b)
        res.append((k, str(s.check())))
    return res
