import sys
import os

# keep the repository's import-time chatter (print in so2.to_Matrix etc.) away from our stdout
def main():
    if len(sys.argv) < 2:
        print("usage: check <property id> [--tier quick|thorough] [--replay file]")
        return 3
    sys.setrecursionlimit(100000)
    pid = sys.argv[1]
    from vf.runner import main as run
    return run(pid, sys.argv[2:])


if __name__ == "__main__":
    sys.exit(main())
