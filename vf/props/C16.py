"""C16 - the quadrotor model obeys rigid-body physics invariants."""
from __future__ import annotations
from fractions import Fraction
import casadi as ca
import mpmath as mp
import z3

from ..harness import Harness, Claim, HarnessError, StructureChanged
from ..val import Val
from .. import val as V
from ..enc import Ctx, Angle
from ..oracles import s3_chart, quat_to_R, quat_mul
from ..runner import run_harness_job, harness_jobs

LEVEL = "proof"
TRUSTED = ["CasADi SX construction + instruction API", "IR->SMT encoder (validated against CasADi's VM on every run)",
           "S^3 chart of unit quaternions (both signs); formal (sin, cos) pairs for the arm angles and the yaw shift",
           "z3 5.1.0 nlsat"]
ASSUMPTIONS = ["real arithmetic (no IEEE rounding)", "parameters symbolic: m, Jx, Jy, Jz, tau_up, tau_down, CT > 0; all others free",
               "force/moment, hover and free-fall claims: above ground (z >= 0), CD0 = 0 and Cl_p = Cm_q = Cn_r = 0 "
               "(the statement's rotor-only force model); equivariance: all cells incl. ground contact and drag"]
BOUNDS = {"cells": "ground / no ground, |V| > 1e-5 or not, motor spin-up / spin-down per rotor"}
EXPLANATION = "parametric identities of model['f'], g_accel, g_gyro per output component and branch cell"

PN = ["tau_up", "tau_down"] + [f"dir{i}" for i in range(4)] + [f"l{i}" for i in range(4)] + [f"th{i}" for i in range(4)] + \
     ["CT", "CM", "Cl_p", "Cm_q", "Cn_r", "CD0", "S", "rho", "g", "m", "Jx", "Jy", "Jz"] + [f"noise{i}" for i in range(12)]


def model():
    import cyecca.models.quadrotor as q
    md = q.derive_model()
    f = md["f"]
    if f.size_in(0) != (17, 1) or f.size_in(1) != (4, 1) or f.size_in(2) != (39, 1):
        raise StructureChanged("quadrotor model has an unexpected signature")
    names = [md["p"][i].name() for i in range(39)]
    exp = (["tau_up", "tau_down"] + [f"dir_motor_{i}" for i in range(4)] + [f"l_motor_{i}" for i in range(4)]
           + [f"theta_motor_{i}" for i in range(4)] + ["CT", "CM", "Cl_p", "Cm_q", "Cn_r", "CD0", "S", "rho", "g", "m",
                                                       "Jx", "Jy", "Jz"])
    if names[:27] != exp:
        raise StructureChanged(f"parameter vector layout changed: {names[:27]}")
    return md


def params(ctx, zero=()):
    """symbolic parameter vector; arm angles enter through formal (sin, cos) pairs"""
    P = {}
    for n in PN:
        P[n] = Val(0) if n in zero else Val.var(n)
    for n in ("m", "Jx", "Jy", "Jz", "tau_up", "tau_down", "CT"):
        ctx.assume(P[n].num_term() > 0)
    sc = []
    for i in range(4):
        s, c = Val.var(f"s_th{i}"), Val.var(f"c_th{i}")
        ctx.assume(V.eq(s * s + c * c, 1))
        ctx.angles.append(Angle(P[f"th{i}"], sin=s, cos=c, name=f"th{i}"))
        sc.append((s, c))

    def fix(env):
        for i in range(4):
            if f"th{i}" in env:
                env[f"s_th{i}"] = mp.sin(env[f"th{i}"])
                env[f"c_th{i}"] = mp.cos(env[f"th{i}"])
        if "psi_h" in env:
            env["sh"], env["ch"] = mp.sin(env["psi_h"]), mp.cos(env["psi_h"])
    ctx.probe_fix = fix
    return P, sc


def state(ctx, sign=1, tag=""):
    pos = [Val.var(f"pos{tag}{i}") for i in range(3)]
    vel = [Val.var(f"vel{tag}{i}") for i in range(3)]
    u = [Val.var(f"u{tag}{i}") for i in range(3)]
    q = s3_chart(u[0], u[1], u[2], sign)
    w = [Val.var(f"w{tag}{i}") for i in range(3)]
    om = [Val.var(f"om{tag}{i}") for i in range(4)]
    return pos, vel, q, w, om


class Base(Harness):
    timeout_ms = 60000
    max_cells = 64

    def env_fix(self, env):
        for i in range(4):
            if f"th{i}" in env:
                env[f"s_th{i}"] = mp.sin(env[f"th{i}"])
                env[f"c_th{i}"] = mp.cos(env[f"th{i}"])
        if "psi_h" in env:
            env["sh"], env["ch"] = mp.sin(env["psi_h"]), mp.cos(env["psi_h"])


class QuatNorm(Base):
    """q . q' = 0 for every state (arbitrary, even non-unit, quaternion)"""

    def __init__(self):
        self.name = "C16:quat_norm"

    def build(self):
        md = model()
        x, u, p = ca.SX.sym("x", 17), ca.SX.sym("u", 4), ca.SX.sym("p", 39)
        xd = md["f"](x, u, p)
        return ca.Function("qnorm", [x, u, p], [ca.dot(x[6:10], xd[6:10])])

    def make_ctx(self):
        ctx = Ctx()
        P, sc = params(ctx)
        ctx.aux = {}
        x = [Val.var(f"x{i}") for i in range(17)]
        return ctx, [x, [Val.var(f"cmd{i}") for i in range(4)], [P[n] for n in PN]]

    def claims(self, outs, ins, aux):
        return [Claim("q.qdot", outs[0][0][0], 0)]


class ForceMoment(Base):
    """above ground, no aerodynamic terms: m (v' + w x v) = sum_i CT om_i^2 e3 + R^T(-m g e3);
    J w' + w x J w = sum_i [ r_i x (T_i e3) - CM dir_i T_i e3 ],  r_i = l_i (cos th_i, sin th_i, 0)"""

    def __init__(self, sign=1):
        self.sign = sign
        self.name = "C16:force_moment" + ("" if sign == 1 else ":negq")

    def build(self):
        md = model()
        x, u, p = ca.SX.sym("x", 17), ca.SX.sym("u", 4), ca.SX.sym("p", 39)
        xd = md["f"](x, u, p)
        return ca.Function("fm", [x, u, p], [xd[3:6], xd[10:13], xd[0:3]])

    def make_ctx(self):
        ctx = Ctx()
        P, sc = params(ctx, zero=("CD0", "Cl_p", "Cm_q", "Cn_r"))
        pos, vel, q, w, om = state(ctx, self.sign)
        ctx.assume(V.ge(pos[2], 0))
        ctx.aux = dict(P=P, sc=sc, q=q, vel=vel, w=w, om=om)
        return ctx, [pos + vel + q + w + om, [Val.var(f"cmd{i}") for i in range(4)], [P[n] for n in PN]]

    def claims(self, outs, ins, aux):
        vd, wd, pd = outs
        P, sc, q, vel, w, om = aux["P"], aux["sc"], aux["q"], aux["vel"], aux["w"], aux["om"]
        R = quat_to_R(q)
        Rt = V.mat_T(R)
        m, g, CT, CM = P["m"], P["g"], P["CT"], P["CM"]
        T = [CT * om[i] * om[i] for i in range(4)]
        Fz = T[0] + T[1] + T[2] + T[3]
        grav = V.mat_vec(Rt, [0, 0, -m * g])
        F = [grav[0], grav[1], grav[2] + Fz]
        wxv = V.cross(w, vel)
        cl = []
        for i in range(3):
            cl.append(Claim(f"force[{i}]", m * (vd[i][0] + wxv[i]), F[i]))
        J = [P["Jx"], P["Jy"], P["Jz"]]
        Jw = [J[i] * w[i] for i in range(3)]
        wxJw = V.cross(w, Jw)
        M = [0, 0, 0]
        for i in range(4):
            s, c = sc[i]
            r = [P[f"l{i}"] * c, P[f"l{i}"] * s, 0]
            mi = V.cross(r, [0, 0, T[i]])
            M = [M[0] + mi[0], M[1] + mi[1], M[2] + mi[2] - CM * P[f"dir{i}"] * T[i]]
        for i in range(3):
            cl.append(Claim(f"moment[{i}]", J[i] * wd[i][0] + wxJw[i], M[i]))
        # position kinematics: p' = R v
        Rv = V.mat_vec(R, vel)
        for i in range(3):
            cl.append(Claim(f"pos_kin[{i}]", pd[i][0], Rv[i]))
        return cl


class Hover(Base):
    """symmetric frame + each rotor carrying a quarter of the weight, level, at rest, command = speed => x' = 0"""

    def __init__(self):
        self.name = "C16:hover"

    def build(self):
        md = model()
        x, u, p = ca.SX.sym("x", 17), ca.SX.sym("u", 4), ca.SX.sym("p", 39)
        return ca.Function("hover", [x, u, p], [md["f"](x, u, p)])

    def make_ctx(self):
        ctx = Ctx()
        P, sc = params(ctx, zero=("CD0", "Cl_p", "Cm_q", "Cn_r"))
        wh = Val.var("w_hover")
        ctx.assume(V.eq(wh * wh * 4 * P["CT"], P["m"] * P["g"]))
        # symmetric frame premises
        sx = sum((P[f"l{i}"] * sc[i][1] for i in range(1, 4)), P["l0"] * sc[0][1])
        sy = sum((P[f"l{i}"] * sc[i][0] for i in range(1, 4)), P["l0"] * sc[0][0])
        sd = P["dir0"] + P["dir1"] + P["dir2"] + P["dir3"]
        ctx.assume(V.eq(sx, 0), V.eq(sy, 0), V.eq(sd, 0))
        pos = [Val.var("pos0"), Val.var("pos1"), Val.var("pos2")]
        ctx.assume(V.ge(pos[2], 0))
        ctx.aux = {}
        x = pos + [Val(0)] * 3 + [Val(1), Val(0), Val(0), Val(0)] + [Val(0)] * 3 + [wh] * 4
        return ctx, [x, [wh] * 4, [P[n] for n in PN]]

    def claims(self, outs, ins, aux):
        return [Claim(f"xdot[{i}]", outs[0][i][0], 0) for i in range(17)]


class FreeFall(Base):
    """rotors stopped, above ground, no drag: accelerometer reads zero (noise term off); gyro reads the body rate"""

    def __init__(self):
        self.name = "C16:free_fall"

    def build(self):
        md = model()
        x, u, p = ca.SX.sym("x", 17), ca.SX.sym("u", 4), ca.SX.sym("p", 39)
        w3, dt = ca.SX.sym("w3", 3), ca.SX.sym("dt")
        return ca.Function("ff", [x, u, p, dt], [md["g_accel"](x, u, p, ca.SX.zeros(3), dt),
                                                  md["g_gyro"](x, u, p, ca.SX.zeros(3), dt)])

    def make_ctx(self):
        ctx = Ctx()
        P, sc = params(ctx, zero=("CD0", "Cl_p", "Cm_q", "Cn_r"))
        pos, vel, q, w, om = state(ctx)
        ctx.assume(V.ge(pos[2], 0))
        dt = Val.var("dt")
        ctx.assume(dt.num_term() > 0)
        ctx.aux = dict(w=w)
        return ctx, [pos + vel + q + w + [Val(0)] * 4, [Val.var(f"cmd{i}") for i in range(4)], [P[n] for n in PN], [dt]]

    def claims(self, outs, ins, aux):
        return ([Claim(f"accel[{i}]", outs[0][i][0], 0) for i in range(3)]
                + [Claim(f"gyro[{i}]", outs[1][i][0], aux["w"][i]) for i in range(3)])


class Equivariance(Base):
    """f(g.x) = g.f(x) for g = horizontal translation and rotation about the world vertical (all cells)"""
    max_cells = 64

    def __init__(self):
        self.name = "C16:equivariance"
        self.shards = 4

    def build(self):
        md = model()
        x, u, p = ca.SX.sym("x", 17), ca.SX.sym("u", 4), ca.SX.sym("p", 39)
        x2 = ca.SX.sym("x2", 17)
        f = md["f"]
        # motor dynamics must not depend on the pose at all
        xd = f(x, u, p)
        if ca.jacobian(xd[13:17], x[0:13]).nnz() != 0:
            raise HarnessError("motor dynamics depend on the vehicle pose")
        return ca.Function("equiv", [x, x2, u, p], [xd[0:13], f(x2, u, p)[0:13]])

    def make_ctx(self):
        ctx = Ctx()
        P, sc = params(ctx)
        pos, vel, q, w, om = state(ctx)
        sh, ch = Val.var("sh"), Val.var("ch")  # sin, cos of half the yaw shift
        ctx.assume(V.eq(sh * sh + ch * ch, 1))
        dx, dy = Val.var("dx"), Val.var("dy")
        c, s = ch * ch - sh * sh, 2 * sh * ch
        Rz = [[c, -s, 0], [s, c, 0], [0, 0, 1]]
        p2 = V.mat_vec(Rz, pos)
        p2 = [p2[0] + dx, p2[1] + dy, p2[2]]
        qz = [ch, Val(0), Val(0), sh]
        q2 = quat_mul(qz, q)
        ctx.aux = dict(Rz=Rz, qz=qz)
        return ctx, [pos + vel + q + w + om, p2 + vel + q2 + w + om, [Val.var(f"cmd{i}") for i in range(4)],
                     [P[n] for n in PN]]

    def claims(self, outs, ins, aux):
        a, b = outs
        Rz, qz = aux["Rz"], aux["qz"]
        cl = []
        pa = V.mat_vec(Rz, [a[0][0], a[1][0], a[2][0]])
        for i in range(3):
            cl.append(Claim(f"pos_dot[{i}]", b[i][0], pa[i]))
            cl.append(Claim(f"vel_dot[{i}]", b[3 + i][0], a[3 + i][0]))
            cl.append(Claim(f"omega_dot[{i}]", b[10 + i][0], a[10 + i][0]))
        qa = quat_mul(qz, [a[6 + i][0] for i in range(4)])
        for i in range(4):
            cl.append(Claim(f"q_dot[{i}]", b[6 + i][0], qa[i]))
        return cl


class Motor(Base):
    """d/dt om_i = (cmd_i - om_i)/tau_up when spinning up, /tau_down when spinning down: relaxes monotonically"""

    def __init__(self, i):
        self.i = i
        self.name = f"C16:motor[{i}]"

    def build(self):
        md = model()
        x, u, p = ca.SX.sym("x", 17), ca.SX.sym("u", 4), ca.SX.sym("p", 39)
        return ca.Function("motor", [x, u, p], [md["f"](x, u, p)[13 + self.i]])

    def make_ctx(self):
        ctx = Ctx()
        P, sc = params(ctx)
        x = [Val.var(f"x{k}") for k in range(17)]
        cmd = [Val.var(f"cmd{k}") for k in range(4)]
        ctx.aux = dict(P=P)
        return ctx, [x, cmd, [P[n] for n in PN]]

    def claims(self, outs, ins, aux):
        d = outs[0][0][0]
        om, cmd = ins[0][13 + self.i], ins[1][self.i]
        P = aux["P"]
        err = om - cmd
        return [Claim("one_of_the_two_laws", (d * P["tau_up"] + err) * (d * P["tau_down"] + err), 0),
                Claim("monotone", err * d, 0, "le"),
                Claim("spin_up_uses_tau_up", d * P["tau_up"] + err, 0, guard=(cmd - om, "gt", 0)),
                Claim("spin_down_uses_tau_down", d * P["tau_down"] + err, 0, guard=(cmd - om, "lt", 0)),
                Claim("at_command_rests", d, 0, guard=(cmd - om, "eq", 0))]


class Defaults(Harness):
    """the shipped default parameters satisfy the symmetric-frame premises of the hover claim (exact evaluation of
    the model's own r_i and spin directions through the instruction list)"""
    n_validate = 1

    def __init__(self):
        self.name = "C16:defaults_symmetric"

    def build(self):
        md = model()
        pd = md["p_defaults"]
        vals = list(pd.values())
        if len(vals) != 39:
            raise HarnessError("p_defaults does not have 39 entries")
        d = ca.SX.sym("d")
        p = ca.DM(vals) + 0 * d
        l = p[6:10]
        th = p[10:14]
        dr = p[2:6]
        return ca.Function("defaults", [d], [ca.vertcat(ca.sum1(l * ca.cos(th)), ca.sum1(l * ca.sin(th)), ca.sum1(dr))])

    def make_ctx(self):
        ctx = Ctx()
        ctx.aux = {}
        return ctx, [[Val.var("d")]]

    def claims(self, outs, ins, aux):
        numeric = not isinstance(ins[0][0], Val)
        tol = mp.mpf("1e-12") if numeric else Val(Fraction(1, 10 ** 12))
        cl = []
        for k, nm in enumerate(("sum_l_cos", "sum_l_sin", "sum_dir")):
            cl.append(Claim(f"{nm}:le", outs[0][k][0], tol, "le", tol=0))
            cl.append(Claim(f"{nm}:ge", outs[0][k][0], -tol, "ge", tol=0))
        return cl


def all_harnesses(tier):
    hs = [QuatNorm(), ForceMoment(1), ForceMoment(-1), Hover(), FreeFall(), Equivariance()]
    hs += [Motor(i) for i in range(4)] + [Defaults()]
    return hs


def get_harness(name, tier="quick"):
    for h in all_harnesses(tier):
        if h.name == name:
            return h
    raise KeyError(name)


def jobs(tier, seed):
    return harness_jobs(__name__, all_harnesses(tier), seed, tier)
