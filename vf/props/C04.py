"""C04 - Ad, ad and the bracket agree with matrix conjugation and commutators."""
from __future__ import annotations
import casadi as ca
import mpmath as mp
import z3

from ..harness import Harness, Claim, HarnessError
from ..val import Val
from .. import val as V
from ..enc import Ctx
from ..stubs import SeriesStubs
from ..lieh import (groups, family, group_input, algebra_input, algebra_of, n_alg, MatrixCut, expm_oracle)
from ..runner import run_harness_job, harness_jobs
from .C02 import entry_claims
from .C01 import get_group, gin, PRODUCTS

LEVEL = "proof"
TRUSTED = ["CasADi SX construction + instruction API", "IR->SMT encoder (validated against CasADi's VM on every run)",
           "rational charts of the group manifolds", "Ad_{exp A} = expm(ad_A) (theorem) links the conjugation law and C02; "
           "direct closed-form check for so(3), se(3), se_2(3) (Barfoot's quartic in ad)", "z3 5.1.0 nlsat"]
ASSUMPTIONS = ["real arithmetic (no IEEE rounding)", "M(X)^-1 is taken as M(X.inverse()), justified by C01",
               "operations that raise NotImplementedError are out of scope (Ad / bracket of direct products)"]
BOUNDS = {"groups": "all 12 exposed groups + 3 direct sums (ad only)"}
EXPLANATION = ("Ad/ad/bracket identities are polynomial (rational for MRP) identities on charts; each matrix entry is one "
               "z3 query. Shape errors and crashes of offered operations are reported as violations.")

GROUPS = ["SO2", "SE2", "R2", "R3", "SO3Quat", "SO3Mrp", "SO3Dcm", "SO3EulerB321", "SE3Quat", "SE3Mrp",
          "SE23Quat", "SE23Mrp"]
ALGS = ["SO2", "SE2", "R2", "R3", "SO3", "SE3", "SE23"]


def free_alg(fam, tag):
    return [Val.var(f"{tag}{i}") for i in range(n_alg(fam))]


class AdConj(Harness):
    """(Ad_X y)^ = M(X) y^ M(X^-1), Ad square of algebra dimension; Ad_{XY} = Ad_X Ad_Y; Ad_{X^-1} Ad_X = I"""
    timeout_ms = 60000

    def __init__(self, gname, sign=1):
        self.gname = gname
        self.fam = family(gname)
        self.sign = sign
        self.name = f"C04:Ad:{gname}" + ("" if sign == 1 else ":negq")

    def build(self):
        G = groups()[self.gname]
        alg = algebra_of(self.fam)
        n = alg.n_param
        x = ca.SX.sym("x", G.n_param)
        y = ca.SX.sym("y", G.n_param)
        b = ca.SX.sym("b", n)
        X, Y = G.elem(x), G.elem(y)
        AdX = ca.SX(X.Ad())
        if AdX.shape != (n, n):
            raise HarnessError(f"Ad of {self.gname} has shape {AdX.shape}, algebra dimension is {n}")
        AdY = ca.SX(Y.Ad())

        def inv_matrix(E):
            if self.gname == "SO3EulerB321":
                with MatrixCut(("Euler",)) as mc:
                    E.inverse()
                return mc.calls[0][1]
            return ca.SX(E.inverse().to_Matrix())

        def prod_Ad(E1, E2):
            if self.gname == "SO3EulerB321":
                with MatrixCut(("Euler",)) as mc:
                    E1 * E2
                return mc.calls[0][1]  # Ad of an Euler element is its matrix
            return ca.SX((E1 * E2).Ad())

        def inv_Ad(E):
            if self.gname == "SO3EulerB321":
                return inv_matrix(E)
            return ca.SX(E.inverse().Ad())
        outs = [AdX, ca.SX(X.to_Matrix()), inv_matrix(X), ca.SX(alg.elem(b).to_Matrix()),
                ca.SX(alg.elem(AdX @ b).to_Matrix()), AdY, prod_Ad(X, Y), inv_Ad(X)]
        return ca.Function(f"Ad_{self.gname}", [x, y, b], outs)

    def make_ctx(self):
        ctx = Ctx()
        gx = group_input(ctx, self.gname, "X", self.sign)
        gy = group_input(ctx, self.gname, "Y")
        self.lats = gx.lats + gy.lats
        from ..enc import Angle
        ths = [L for L in self.lats if L.name.startswith("th")]
        if len(ths) == 2:
            A, B = ths[0].A1, ths[1].A1
            ctx.angles.append(Angle(A.term + B.term, sin=A.sin * B.cos + A.cos * B.sin,
                                    cos=A.cos * B.cos - A.sin * B.sin))
        ctx.aux = {}
        return ctx, [gx.params, gy.params, free_alg(self.fam, "b")]

    def env_fix(self, env):
        for L in self.lats:
            L.concretize(env)

    def claims(self, outs, ins, aux):
        AdX, MX, MXi, bh, Adb_h, AdY, AdXY, AdXi = outs
        n = len(AdX)
        cl = entry_claims("conj", Adb_h, V.mat_mul(V.mat_mul(MX, bh), MXi))
        cl += entry_claims("hom", AdXY, V.mat_mul(AdX, AdY))
        cl += entry_claims("inv", V.mat_mul(AdXi, AdX), V.mat_eye(n))
        return cl


class Bracket(Harness):
    """ad_x y = [x,y];  [x,y]^ = x^ y^ - y^ x^;  antisymmetry;  Jacobi;  operator sugar x*y"""
    timeout_ms = 30000

    def __init__(self, fam):
        self.fam = fam
        self.name = f"C04:bracket:{fam}"

    def build(self):
        alg = algebra_of(self.fam)
        n = alg.n_param
        a, b, c = ca.SX.sym("a", n), ca.SX.sym("b", n), ca.SX.sym("c", n)
        A, B, C = alg.elem(a), alg.elem(b), alg.elem(c)
        ad = ca.SX(A.ad())
        if ad.shape != (n, n):
            raise HarnessError(f"ad of {self.fam} has shape {ad.shape}, algebra dimension is {n}")
        AB = A * B  # operator sugar: bracket
        BA = B * A
        jac = (A * (B * C)).param + (B * (C * A)).param + (C * (A * B)).param
        outs = [ad @ b, AB.param, BA.param, ca.SX(AB.to_Matrix()), ca.SX(A.to_Matrix()), ca.SX(B.to_Matrix()),
                jac, alg.bracket(A, B).param]
        return ca.Function(f"bracket_{self.fam}", [a, b, c], [ca.SX(o) for o in outs])

    def make_ctx(self):
        ctx = Ctx()
        ctx.aux = {}
        return ctx, [free_alg(self.fam, "a"), free_alg(self.fam, "b"), free_alg(self.fam, "c")]

    def claims(self, outs, ins, aux):
        adb, ab, ba, ABh, Ah, Bh, jac, ab2 = outs
        n = len(adb)
        cl = []
        for i in range(n):
            cl.append(Claim(f"ad_is_bracket[{i}]", adb[i][0], ab[i][0]))
            cl.append(Claim(f"antisym[{i}]", ab[i][0] + ba[i][0], 0))
            cl.append(Claim(f"jacobi[{i}]", jac[i][0], 0))
            cl.append(Claim(f"sugar[{i}]", ab[i][0], ab2[i][0]))
        cl += entry_claims("commutator", ABh, V.mat_sub(V.mat_mul(Ah, Bh), V.mat_mul(Bh, Ah)))
        return cl


class DirectSumAd(Harness):
    """direct-sum ad is block diagonal of the factors' ad (the offered operation); square of dim n"""

    def __init__(self, pname):
        self.pname = pname
        self.name = f"C04:ad_directsum:{pname}"

    def build(self):
        G = get_group(self.pname)
        alg = G.algebra
        n = alg.n_param
        a = ca.SX.sym("a", n)
        A = alg.elem(a)
        ad = ca.SX(A.ad())
        if ad.shape != (n, n):
            raise HarnessError(f"ad of direct sum {self.pname} has shape {ad.shape}, algebra dimension is {n}")
        subs = [ca.SX(s.ad()) for s in alg.sub_elems(A)]
        return ca.Function(f"adsum_{self.pname}", [a], [ad] + subs)

    def make_ctx(self):
        ctx = Ctx()
        ctx.aux = {}
        n = get_group(self.pname).algebra.n_param
        return ctx, [[Val.var(f"a{i}") for i in range(n)]]

    def claims(self, outs, ins, aux):
        ad = outs[0]
        n = len(ad)
        exp = V.mat_zero(n, n)
        o = 0
        for S in outs[1:]:
            k = len(S)
            for i in range(k):
                for j in range(k):
                    exp[o + i][o + j] = S[i][j]
            o += k
        return entry_claims("blockdiag", ad, exp)


class AdExp(Harness):
    """Ad_{exp x} = expm(ad_x): closed form  I + c1 ad + c2 ad^2 + c3 ad^3 + c4 ad^4 (Barfoot) for so3/se3/se23,
    with the real ad matrix; theta in (0, 2pi) via stubs."""
    timeout_ms = 120000

    def __init__(self, gname):
        self.gname = gname
        self.fam = family(gname)
        self.name = f"C04:AdExp:{gname}"
        if self.fam == "SE23":
            self.shards = 9

    def _real(self, x):
        G = groups()[self.gname]
        alg = algebra_of(self.fam)
        if self.fam == "SE23" or self.gname == "SO3EulerB321":
            raise NotImplementedError("handled via conjugation law + C02 (exp ends in from_Matrix)")
        X = alg.elem(x).exp(G)
        return [ca.SX(X.Ad()), ca.SX(alg.elem(x).ad())]

    def build(self):
        x = ca.SX.sym("x", n_alg(self.fam))
        self.x = x
        with SeriesStubs() as st:
            outs = self._real(x)
        self.st = st
        ins = [x] + ([ca.vertcat(*st.coef_syms())] if st.calls else [])
        return ca.Function(f"AdExp_{self.gname}", ins, outs)

    def build_real(self):
        x = ca.SX.sym("x", n_alg(self.fam))
        return ca.Function(f"AdExp_{self.gname}_real", [x], self._real(x))

    def make_ctx(self):
        ctx = Ctx()
        xin, aux = algebra_input(ctx, self.fam)
        self.lat = aux.pop("_lat", None)
        if self.fam in ("SO2", "SE2"):
            ctx.assume(aux["th"].num_term() != 0)
        ctx.aux = aux
        coefs = self.st.bind(ctx, [xin], [self.x])
        return ctx, [xin] + ([coefs] if coefs else [])

    def env_fix(self, env):
        if self.lat is not None:
            self.lat.concretize(env)
        if self.fam in ("SO2", "SE2"):
            env["s"] = mp.sin(env["th"])
            env["c"] = mp.cos(env["th"])

    def claims(self, outs, ins, aux):
        Ad, ad = outs
        n = len(ad)
        I = V.mat_eye(n)
        if self.fam in ("SO2", "R2", "R3"):
            return entry_claims("AdExp", Ad, I)
        th, s, c = aux["th"], aux["s"], aux["c"]
        if self.fam == "SE2":
            # expm of [[0,-th,y],[th,0,-x],[0,0,0]]
            x, y = aux["p"]
            a = s / th
            b = (1 - c) / th
            E = [[c, -s, a * y + b * x], [s, c, -a * x + b * y], [0, 0, 1]]
            # (first two columns rotate; last column = V * (y, -x))
            return entry_claims("AdExp", Ad, E)
        ad2 = V.mat_mul(ad, ad)
        if self.fam == "SO3":
            E = V.mat_add(I, V.mat_add(V.mat_scale(s / th, ad), V.mat_scale((1 - c) / (th * th), ad2)))
            return entry_claims("AdExp", Ad, E)
        ad3 = V.mat_mul(ad2, ad)
        ad4 = V.mat_mul(ad2, ad2)
        th2 = th * th
        c1 = (3 * s - th * c) / (2 * th)
        c2 = (4 - th * s - 4 * c) / (2 * th2)
        c3 = (s - th * c) / (2 * th2 * th)
        c4 = (2 - th * s - 2 * c) / (2 * th2 * th2)
        E = V.mat_add(I, V.mat_add(V.mat_add(V.mat_scale(c1, ad), V.mat_scale(c2, ad2)),
                                   V.mat_add(V.mat_scale(c3, ad3), V.mat_scale(c4, ad4))))
        return entry_claims("AdExp", Ad, E)


def all_harnesses(tier):
    hs = []
    for g in GROUPS:
        hs.append(AdConj(g))
        hs.append(AdExp(g))
    for g in ("SO3Quat", "SE3Quat", "SE23Quat", "SO3Dcm"):
        hs.append(AdConj(g, sign=-1))
    for a in ALGS:
        hs.append(Bracket(a))
    for p in PRODUCTS:
        hs.append(DirectSumAd(p))
    return hs


def get_harness(name, tier="quick"):
    for h in all_harnesses(tier):
        if h.name == name:
            return h
    raise KeyError(name)


def jobs(tier, seed):
    return harness_jobs(__name__, all_harnesses(tier), seed, tier)
