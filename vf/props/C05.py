"""C05 - Jacobians are the true differentials of exp and of attitude kinematics."""
from __future__ import annotations
import casadi as ca
import mpmath as mp
import z3

from ..harness import Harness, Claim, HarnessError, StructureChanged
from ..val import Val
from .. import val as V
from ..enc import Ctx
from ..stubs import SeriesStubs
from ..lieh import (groups, family, algebra_input, algebra_of, n_alg, MatrixCut, group_input)
from ..runner import run_harness_job, harness_jobs
from .C02 import entry_claims
from .C03 import Stubbed

LEVEL = "proof"
TRUSTED = ["CasADi SX construction, automatic differentiation (ca.jacobian) and instruction API",
           "IR->SMT encoder (validated against CasADi's VM on every run)",
           "calculus of the series oracles by dual numbers (sin'=cos, cos'=-sin, tan'=1+tan^2, atan'=1/(1+x^2))",
           "C02 (the differentiated exp is the matrix exponential); C06 series lemmas", "z3 5.1.0 nlsat"]
ASSUMPTIONS = ["real arithmetic (no IEEE rounding)", "theta in (0, 2pi) on the quarter lattice, axis chart misses (0,0,-1)",
               "theta = 0: exact constant evaluation (J = I blocks)"]
BOUNDS = {"algebras": "so(3), se(3), se_2(3)", "directions": "all basis directions of the algebra"}
EXPLANATION = ("J_l / J_r are compared column by column with d/dx_i M(exp x) M(exp x)^-1 (resp. M^-1 dM) where the "
               "derivative is CasADi's own AD of the real exp with series stubs differentiated by the chain rule; "
               "inverse, Ad-relation and J_r(-x) identities and the group-level kinematic Jacobians are polynomial "
               "identities per entry")

FAMS = {"SO3": "SO3Quat", "SE3": "SE3Quat", "SE23": "SE23Quat"}


class AlgJac(Stubbed):
    """J J^-1 = I (left, right);  J_l = Ad_{exp x} J_r;  J_l(x) = J_r(-x)"""
    timeout_ms = 90000

    def __init__(self, fam, part):
        self.fam = fam
        self.part = part
        self.name = f"C05:algjac:{fam}:{part}"
        self.n_in = (n_alg(fam),)
        if fam == "SE23":
            self.shards = 6

    def _real(self, x):
        alg = algebra_of(self.fam)
        X = alg.elem(x)
        if self.part == "inv":
            return [X.left_jacobian(), X.left_jacobian_inv(), X.right_jacobian(), X.right_jacobian_inv()]
        if self.part == "rel":
            G = groups()[FAMS[self.fam]]
            if self.fam == "SE23":
                # Ad of exp(x): exp ends in from_Matrix -> use expm(ad_x) = Ad_exp (C04) through the real ad
                # and the closed form; here we only need J_l = J_r(-x)
                return [X.left_jacobian(), (-X).right_jacobian()]
            return [X.left_jacobian(), (-X).right_jacobian(), X.right_jacobian(), X.exp(G).Ad()]

    def _inputs(self, ctx):
        xin, aux = algebra_input(ctx, self.fam)
        L = aux.pop("_lat", None)
        self.lats = [L]
        ctx.aux = aux
        return [xin]

    def claims(self, outs, ins, aux):
        n = len(outs[0])
        I = V.mat_eye(n)
        if self.part == "inv":
            Jl, Jli, Jr, Jri = outs
            return (entry_claims("JlJli", V.mat_mul(Jl, Jli), I) + entry_claims("JliJl", V.mat_mul(Jli, Jl), I)
                    + entry_claims("JrJri", V.mat_mul(Jr, Jri), I) + entry_claims("JriJr", V.mat_mul(Jri, Jr), I))
        cl = entry_claims("Jl=Jr(-x)", outs[0], outs[1])
        if len(outs) > 2:
            cl += entry_claims("Jl=AdJr", outs[0], V.mat_mul(outs[3], outs[2]))
        return cl


class DExp(Harness):
    """(d/dx_i M(exp x)) M(exp x)^-1 = (J_l e_i)^  and  M^-1 dM/dx_i = (J_r e_i)^  for every basis direction"""
    timeout_ms = 90000

    def __init__(self, fam):
        self.fam = fam
        self.name = f"C05:dexp:{fam}"
        self.shards = {"SO3": 1, "SE3": 4, "SE23": 12}[fam]

    def _pieces(self, x):
        G = groups()[FAMS[self.fam]]
        alg = algebra_of(self.fam)
        X = alg.elem(x)

        def expM(xx):
            if self.fam == "SE23":
                with MatrixCut(("SE23",)) as mc:
                    E = alg.elem(xx).exp(G)
                if len(mc.calls) != 1 or not ca.is_equal(E.param, mc.calls[0][2], 2):
                    raise StructureChanged("exp does not end in a single from_Matrix call")
                return mc.calls[0][1]
            return ca.SX(alg.elem(xx).exp(G).to_Matrix())
        M = expM(x)
        Mi = expM(-x)
        Jl = ca.SX(X.left_jacobian())
        Jr = ca.SX(X.right_jacobian())
        return M, Mi, Jl, Jr

    def build(self):
        n = n_alg(self.fam)
        alg = algebra_of(self.fam)
        x = ca.SX.sym("x", n)
        self.x = x
        with SeriesStubs() as st:
            M, Mi, Jl, Jr = self._pieces(x)
        self.st = st
        cs = st.coef_syms()
        ds = [ca.SX.sym(f"dcoef{k}") for k in range(len(cs))]
        m = M.shape[0]
        vM = ca.vec(M)
        JMx = ca.jacobian(vM, x)
        outs = []
        for i in range(n):
            dv = JMx[:, i]
            for k, (key, sq, arg, sym) in enumerate(st.calls):
                du = ca.jacobian(arg, x)[0, i]
                dv = dv + ca.jacobian(vM, sym) * ds[k] * du
            dM = ca.reshape(dv, m, m)
            ei = ca.SX.zeros(n, 1)
            ei[i] = 1
            outs += [dM @ Mi, Mi @ dM, ca.SX(alg.elem(Jl @ ei).to_Matrix()), ca.SX(alg.elem(Jr @ ei).to_Matrix())]
        return ca.Function(f"dexp_{self.fam}", [x, ca.vertcat(*cs), ca.vertcat(*ds)], outs)

    def build_real(self):
        n = n_alg(self.fam)
        alg = algebra_of(self.fam)
        G = groups()[FAMS[self.fam]]
        x = ca.SX.sym("x", n)
        X = alg.elem(x)
        M = ca.SX(X.exp(G).to_Matrix())
        Mi = ca.SX((-X).exp(G).to_Matrix())
        Jl = ca.SX(X.left_jacobian())
        Jr = ca.SX(X.right_jacobian())
        m = M.shape[0]
        JMx = ca.jacobian(ca.vec(M), x)
        outs = []
        for i in range(n):
            dM = ca.reshape(JMx[:, i], m, m)
            ei = ca.SX.zeros(n, 1)
            ei[i] = 1
            outs += [dM @ Mi, Mi @ dM, ca.SX(alg.elem(Jl @ ei).to_Matrix()), ca.SX(alg.elem(Jr @ ei).to_Matrix())]
        return ca.Function(f"dexp_{self.fam}_real", [x], outs)

    def make_ctx(self):
        ctx = Ctx()
        xin, aux = algebra_input(ctx, self.fam)
        self.lat = aux.pop("_lat", None)
        ctx.aux = aux
        coefs, dcoefs = self.st.bind(ctx, [xin], [self.x], derivatives=True)
        return ctx, [xin, coefs, dcoefs]

    def env_fix(self, env):
        self.lat.concretize(env)

    def claims(self, outs, ins, aux):
        cl = []
        n = len(outs) // 4
        for i in range(n):
            L, R, Jlh, Jrh = outs[4 * i: 4 * i + 4]
            cl += entry_claims(f"left[d{i}]", L, Jlh)
            cl += entry_claims(f"right[d{i}]", R, Jrh)
        return cl


class JacZero(Harness):
    """theta = 0: J_l = J_r = their inverses = block form with the translation blocks' limits (exact)"""
    n_validate = 1

    def __init__(self, fam):
        self.fam = fam
        self.name = f"C05:jaczero:{fam}"

    def build(self):
        alg = algebra_of(self.fam)
        n = n_alg(self.fam)
        v = ca.SX.sym("v", n - 3)
        x = ca.vertcat(v, ca.SX.zeros(3, 1)) if n > 3 else ca.SX.zeros(3, 1) * ca.SX.sym("d")
        if n == 3:
            v = ca.symvar(x)[0] if ca.symvar(x) else ca.SX.sym("d")
        X = alg.elem(x)
        outs = [X.left_jacobian(), X.left_jacobian_inv(), X.right_jacobian(), X.right_jacobian_inv()]
        return ca.Function(f"jaczero_{self.fam}", [v], [ca.SX(o) for o in outs])

    def make_ctx(self):
        ctx = Ctx()
        ctx.aux = {}
        n = n_alg(self.fam)
        return ctx, [[Val.var(f"v{i}") for i in range(max(1, n - 3))]]

    def claims(self, outs, ins, aux):
        Jl, Jli, Jr, Jri = outs
        n = len(Jl)
        I = V.mat_eye(n)
        cl = entry_claims("JlJli0", V.mat_mul(Jl, Jli), I) + entry_claims("JrJri0", V.mat_mul(Jr, Jri), I)
        # rotation blocks are the identity; with omega = 0, J_l = I + ad_x/2 exactly (ad_x nilpotent of order 2)
        v = ins[0]
        E = V.mat_eye(n)
        if self.fam == "SE3":
            H = V.hat(v[0:3])
            for i in range(3):
                for j in range(3):
                    E[i][3 + j] = H[i][j] / 2 if not isinstance(H[i][j], int) else 0
        if self.fam == "SE23":
            Hv = V.hat(v[0:3])
            Ha = V.hat(v[3:6])
            for i in range(3):
                for j in range(3):
                    E[i][6 + j] = Hv[i][j] / 2 if not isinstance(Hv[i][j], int) else 0
                    E[3 + i][6 + j] = Ha[i][j] / 2 if not isinstance(Ha[i][j], int) else 0
        cl += entry_claims("Jl0", Jl, E)
        return cl


class QuatKin(Harness):
    """quaternion kinematic Jacobians: dM(q)/dq (J_r w) = M(q) w^ ;  dM/dq (J_l w) = w^ M(q) ;  q.(J w) = 0"""

    def __init__(self, chart):
        self.chart = chart
        self.name = f"C05:quatkin:{chart}"

    def build(self):
        L = groups()
        q = ca.SX.sym("q", 4)
        w = ca.SX.sym("w", 3)
        Q = L["SO3Quat"].elem(q)
        M = ca.SX(Q.to_Matrix())
        Jr = ca.SX(Q.right_jacobian())
        Jl = ca.SX(Q.left_jacobian())
        if Jr.shape != (4, 3) or Jl.shape != (4, 3):
            raise HarnessError(f"quaternion kinematic Jacobians have shapes {Jl.shape}, {Jr.shape}")
        dMq = ca.jacobian(ca.vec(M), q)
        Mr = ca.reshape(dMq @ (Jr @ w), 3, 3)
        Ml = ca.reshape(dMq @ (Jl @ w), 3, 3)
        from cyecca.lie import so3
        W = ca.SX(so3.elem(w).to_Matrix())
        return ca.Function("quatkin", [q, w], [Mr, M @ W, Ml, W @ M, q.T @ Jr @ w, q.T @ Jl @ w])

    def make_ctx(self):
        ctx = Ctx()
        ctx.aux = {}
        if self.chart == "free":
            q = [Val.var(f"q{i}") for i in range(4)]
        else:
            from ..oracles import s3_chart
            u = [Val.var(f"u{i}") for i in range(3)]
            q = s3_chart(u[0], u[1], u[2], 1 if self.chart == "unit+" else -1)
        return ctx, [q, [Val.var(f"w{i}") for i in range(3)]]

    def claims(self, outs, ins, aux):
        return (entry_claims("right", outs[0], outs[1]) + entry_claims("left", outs[2], outs[3])
                + [Claim("norm_r", outs[4][0][0], 0), Claim("norm_l", outs[5][0][0], 0)])


class MrpKin(Harness):
    """MRP body-frame kinematics: dM(r)/dr (B(r) w) = M(r) w^  for all r in R^3"""
    timeout_ms = 60000

    def __init__(self):
        self.name = "C05:mrpkin"

    def build(self):
        L = groups()
        r = ca.SX.sym("r", 3)
        w = ca.SX.sym("w", 3)
        X = L["SO3Mrp"].elem(r)
        M = ca.SX(X.to_Matrix())
        B = ca.SX(X.right_jacobian())
        if B.shape != (3, 3):
            raise HarnessError(f"MRP kinematic Jacobian has shape {B.shape}")
        dM = ca.reshape(ca.jacobian(ca.vec(M), r) @ (B @ w), 3, 3)
        from cyecca.lie import so3
        W = ca.SX(so3.elem(w).to_Matrix())
        return ca.Function("mrpkin", [r, w], [dM, M @ W])

    def make_ctx(self):
        ctx = Ctx()
        ctx.aux = {}
        return ctx, [[Val.var(f"r{i}") for i in range(3)], [Val.var(f"w{i}") for i in range(3)]]

    def claims(self, outs, ins, aux):
        return entry_claims("right", outs[0], outs[1])


def all_harnesses(tier):
    hs = []
    for fam in ("SO3", "SE3", "SE23"):
        hs.append(AlgJac(fam, "inv"))
        hs.append(AlgJac(fam, "rel"))
        hs.append(JacZero(fam))
        if fam != "SE23" or tier == "thorough":
            hs.append(DExp(fam))
    if tier != "thorough":
        hs.append(DExp("SE23"))
    for ch in ("free", "unit+", "unit-"):
        hs.append(QuatKin(ch))
    hs.append(MrpKin())
    return hs


def get_harness(name, tier="quick"):
    for h in all_harnesses(tier):
        if h.name == name:
            return h
    raise KeyError(name)


def jobs(tier, seed):
    return harness_jobs(__name__, all_harnesses(tier), seed, tier)
