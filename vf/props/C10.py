"""C10 - filter numerics: square-root covariance algebra, factorizations, RK4."""
from __future__ import annotations
import math
from fractions import Fraction
import casadi as ca
import mpmath as mp

from ..harness import Harness, Claim, HarnessError, StructureChanged
from ..val import Val
from .. import val as V
from ..enc import Ctx
from ..runner import run_harness_job, harness_jobs
from .C02 import entry_claims

LEVEL = "proof"
TRUSTED = ["CasADi SX construction, AD, symbolic QR/inverse/solve and instruction API",
           "IR->SMT encoder (validated against CasADi's VM on every run)", "z3 5.1.0 nlsat"]
ASSUMPTIONS = ["real arithmetic (no IEEE rounding)", "rk4: double constants within 2 ulp of p/q (q <= 5040) are read as p/q "
               "(CasADi stores division by 6 as multiplication by the rounded reciprocal)", "W lower triangular with non-zero diagonal; pivots of the factorizations "
               "non-zero (denominators on the path are assumed non-zero: 'well conditioned')", "Q, R symmetric (R = Rs Rs^T)"]
BOUNDS = {"quick": {"sqrt_covariance_predict": "n in {1,2,3}", "sqrt_correct": "(n_x,n_y) in {(1,1),(2,1)}; (3,1) and n_y >= 2: one entry each not robustly decided within the time caps (not claimed)",
                    "ldl/udu": "n in {1..4}", "rk4": "scalar ODE, f polynomial of degree <= 3 in (t,y) with symbolic coefficients"},
          "thorough": {"sqrt_covariance_predict": "n <= 4", "sqrt_correct": "same as quick", "ldl/udu": "n <= 6"}}
EXPLANATION = "matrix identities per entry, decided by z3 on symbolic matrices of bounded dimension"


def util():
    import cyecca.util as u
    return u


def lower_syms(name, n):
    return ca.SX.sym(name, ca.Sparsity.lower(n))


def lower_vals(name, n):
    """nz values of a lower-triangular matrix in CasADi (column-major) order + dense matrix"""
    M = [[0] * n for _ in range(n)]
    nz = []
    for j in range(n):
        for i in range(j, n):
            v = Val.var(f"{name}{i}{j}")
            M[i][j] = v
            nz.append(v)
    return nz, M


class CovPredict(Harness):
    timeout_ms = 60000

    def __init__(self, n):
        self.n = n
        self.name = f"C10:sqrt_covariance_predict:n{n}"

    def build(self):
        n = self.n
        W = lower_syms("W", n)
        F = ca.SX.sym("F", n, n)
        Qs = lower_syms("Q", n)
        Q = Qs + Qs.T - ca.diag(ca.diag(Qs))
        Wd = util().sqrt_covariance_predict(W, F, Q)
        return ca.Function("covpred", [W, F, Qs], [ca.SX(Wd), ca.SX(W), ca.SX(Q)])

    def make_ctx(self):
        ctx = Ctx()
        n = self.n
        wn, WM = lower_vals("W", n)
        qn, QM = lower_vals("Q", n)
        Fv = [[Val.var(f"F{i}{j}") for j in range(n)] for i in range(n)]
        for i in range(n):
            ctx.assume(V.ne(WM[i][i], 0))
        ctx.aux = {"F": Fv}
        return ctx, [wn, V.vec(Fv), qn]

    def claims(self, outs, ins, aux):
        Wd, W, Q = outs
        n = self.n
        F = aux["F"]
        P = V.mat_mul(W, V.mat_T(W))
        lhs = V.mat_add(V.mat_mul(Wd, V.mat_T(W)), V.mat_mul(W, V.mat_T(Wd)))
        rhs = V.mat_add(V.mat_add(V.mat_mul(F, P), V.mat_mul(P, V.mat_T(F))), Q)
        cl = entry_claims("lyapunov", lhs, rhs)
        for i in range(n):
            for j in range(i + 1, n):
                cl.append(Claim(f"lower[{i},{j}]", Wd[i][j], 0))
        return cl


class Correct(Harness):
    timeout_ms = 90000
    max_cells = 16

    def __init__(self, nx, ny, rs_diag=False, skip_wp=False):
        self.nx, self.ny, self.rs_diag, self.skip_wp = nx, ny, rs_diag, skip_wp
        self.name = f"C10:sqrt_correct:nx{nx}:ny{ny}" + (":diagR" if rs_diag else "") + (":gain_and_innovation" if skip_wp else "")
        self.shards = 1 if nx * ny <= 2 else 6
        self.timeout_ms = 150000

    def build(self):
        nx, ny = self.nx, self.ny
        W = lower_syms("W", nx)
        Rs = lower_syms("Rs", ny)
        H = ca.SX.sym("H", ny, nx)
        Wp, K, Ss = util().sqrt_correct(Rs, H, W)
        if Wp.shape != (nx, nx) or K.shape != (nx, ny) or Ss.shape != (ny, ny):
            raise HarnessError("sqrt_correct returned matrices of unexpected shapes")
        return ca.Function("correct", [Rs, H, W], [ca.SX(Wp), ca.SX(K), ca.SX(Ss), ca.SX(W), ca.SX(Rs)])

    def make_ctx(self):
        ctx = Ctx()
        nx, ny = self.nx, self.ny
        wn, WM = lower_vals("W", nx)
        rn, RM = lower_vals("R", ny)
        if self.rs_diag:
            # uncorrelated measurement noise: Rs diagonal (strictly lower entries pinned to 0)
            k = 0
            for j in range(ny):
                for i in range(j, ny):
                    if i != j:
                        rn[k] = Val(0)
                        RM[i][j] = Val(0)
                    k += 1
        Hv = [[Val.var(f"H{i}{j}") for j in range(nx)] for i in range(ny)]
        for i in range(nx):
            ctx.assume(V.ne(WM[i][i], 0))
        for i in range(ny):
            ctx.assume(V.ne(RM[i][i], 0))
        ctx.aux = {"H": Hv}
        return ctx, [rn, V.vec(Hv), wn]

    def claims(self, outs, ins, aux):
        Wp, K, Ss, W, Rs = outs
        H = aux["H"]
        nx, ny = self.nx, self.ny
        P = V.mat_mul(W, V.mat_T(W))
        R = V.mat_mul(Rs, V.mat_T(Rs))
        S = V.mat_add(V.mat_mul(V.mat_mul(H, P), V.mat_T(H)), R)
        SsSsT = V.mat_mul(Ss, V.mat_T(Ss))
        cl = entry_claims("SsSsT=S", SsSsT, S)
        cl += entry_claims("KS=PHt", V.mat_mul(K, S), V.mat_mul(P, V.mat_T(H)))
        # W+ W+^T = (I - K H) P.  Given Ss Ss^T = S and K S = P H^T (the two claims above), K S K^T = K H P, so the
        # statement is equivalent to  W+ W+^T + (K Ss)(K Ss)^T = P  (the lower-right block of B_R B_R^T = B B^T).
        # Either form may be the cheaper one for the solver: the second is registered as an equivalent alternative.
        KSs = V.mat_mul(K, Ss)
        blk = entry_claims("WpWpT+KSKT=P", V.mat_add(V.mat_mul(Wp, V.mat_T(Wp)), V.mat_mul(KSs, V.mat_T(KSs))), P)
        IKH = V.mat_sub(V.mat_eye(nx), V.mat_mul(K, H))
        direct = entry_claims("WpWpT=(I-KH)P", V.mat_mul(Wp, V.mat_T(Wp)), V.mat_mul(IKH, P))
        for d, b in zip(direct, blk):
            d.alt = (b,)
        if not self.skip_wp:
            cl += direct
        for i in range(nx):
            for j in range(i + 1, nx):
                cl.append(Claim(f"Wp_lower[{i},{j}]", Wp[i][j], 0))
        return cl


class CorrectAfterQR(Harness):
    """sqrt_correct for larger measurement dimensions, modular: `casadi.qr` is cut (it records its argument and returns a
    fresh orthogonal-factor placeholder and a fresh upper-triangular factor).  Decided for every such factor with a
    non-zero diagonal: the returned Ss and W+ are the lower-triangular blocks of the transposed factor, W+ is lower
    triangular, and the gain solves K Ss = (lower-left block) - i.e. K = P H^T Ss^-T Ss^-1 = P H^T S^-1 once the QR
    identities (proved without the cut for the small dimensions) hold.  Also: the matrix handed to qr is
    [[Rs, H W], [0, W]]^T."""
    timeout_ms = 60000
    max_cells = 4
    sample_on_spurious = True

    def __init__(self, nx, ny):
        self.nx, self.ny = nx, ny
        self.name = f"C10:sqrt_correct:after_qr:nx{nx}:ny{ny}"

    def build(self):
        import casadi
        nx, ny = self.nx, self.ny
        n = nx + ny
        W = lower_syms("W", nx)
        Rs = lower_syms("Rs", ny)
        H = ca.SX.sym("H", ny, nx)
        Rf = ca.SX.sym("Rf", ca.Sparsity.upper(n))
        Qf = ca.SX.sym("Qf", n, n)
        rec = []
        o_qr = casadi.qr

        def qr(A):
            rec.append(ca.SX(A))
            return Qf, Rf
        casadi.qr = qr
        try:
            Wp, K, Ss = util().sqrt_correct(Rs, H, W)
        finally:
            casadi.qr = o_qr
        if len(rec) != 1:
            raise StructureChanged(f"sqrt_correct called qr {len(rec)} times")
        if Wp.shape != (nx, nx) or K.shape != (nx, ny) or Ss.shape != (ny, ny):
            raise HarnessError("sqrt_correct returned matrices of unexpected shapes")
        if ca.depends_on(ca.vertcat(ca.vec(ca.SX(Wp)), ca.vec(ca.SX(K)), ca.vec(ca.SX(Ss))), ca.vec(Qf)):
            raise StructureChanged("sqrt_correct uses the orthogonal factor")
        return ca.Function("after_qr", [Rf, Rs, H, W], [ca.SX(Wp), ca.SX(K), ca.SX(Ss), ca.SX(rec[0]), ca.densify(Rf)])

    def build_real(self):
        # replay: the real function with the real qr; the factor input is ignored
        nx, ny = self.nx, self.ny
        n = nx + ny
        W = lower_syms("W", nx)
        Rs = lower_syms("Rs", ny)
        H = ca.SX.sym("H", ny, nx)
        Rf = ca.SX.sym("Rf", ca.Sparsity.upper(n))
        Wp, K, Ss = util().sqrt_correct(Rs, H, W)
        B = ca.blockcat(Rs, ca.mtimes(H, W), ca.SX.zeros(nx, ny), W)
        R_real = ca.qr(ca.sparsify(B).T)[1]  # the factor the real function works with
        return ca.Function("after_qr_real", [Rf, Rs, H, W], [ca.SX(Wp), ca.SX(K), ca.SX(Ss), ca.SX(B.T), ca.densify(R_real)])

    def make_ctx(self):
        ctx = Ctx()
        nx, ny = self.nx, self.ny
        n = nx + ny
        # upper-triangular factor, column-major non-zeros: column j holds rows 0..j
        U = [[Val(0)] * n for _ in range(n)]
        un = []
        for j in range(n):
            for i in range(j + 1):
                v = Val.var(f"U{i}_{j}")
                U[i][j] = v
                un.append(v)
        for i in range(n):
            ctx.assume(V.ne(U[i][i], 0))
        wn, WM = lower_vals("W", nx)
        rn, RM = lower_vals("R", ny)
        Hv = [[Val.var(f"H{i}{j}") for j in range(nx)] for i in range(ny)]
        for i in range(nx):
            ctx.assume(V.ne(WM[i][i], 0))
        for i in range(ny):
            ctx.assume(V.ne(RM[i][i], 0))
        ctx.aux = dict(U=U, W=WM, Rs=RM, H=Hv)
        return ctx, [un, rn, V.vec(Hv), wn]

    def claims(self, outs, ins, aux):
        Wp, K, Ss, A, Rf = outs
        nx, ny = self.nx, self.ny
        L = V.mat_T(Rf)  # B_R = R^T, lower triangular (the factor as the function sees it: replayable on the real qr)
        cl = []
        for i in range(ny):
            for j in range(ny):
                cl.append(Claim(f"Ss=block[{i},{j}]", Ss[i][j], L[i][j]))
        for i in range(nx):
            for j in range(nx):
                cl.append(Claim(f"Wp=block[{i},{j}]", Wp[i][j], L[ny + i][ny + j]))
        X = [[L[ny + i][j] for j in range(ny)] for i in range(nx)]
        cl += entry_claims("K*Ss=block", V.mat_mul(K, Ss), X)
        # the matrix handed to qr: B^T with B = [[Rs, H W], [0, W]]
        HW = V.mat_mul(aux["H"], aux["W"])
        B = [[(aux["Rs"][i][j] if j < ny else HW[i][j - ny]) for j in range(nx + ny)] for i in range(ny)] + \
            [[(Val(0) if j < ny else aux["W"][i][j - ny]) for j in range(nx + ny)] for i in range(nx)]
        cl += entry_claims("qr_argument=B^T", A, V.mat_T(B))
        return cl


class Factor(Harness):
    timeout_ms = 60000

    def __init__(self, kind, n):
        self.kind, self.n = kind, n
        self.name = f"C10:{kind}:n{n}"

    def build(self):
        n = self.n
        Ps = lower_syms("P", n)
        P = Ps + Ps.T - ca.diag(ca.diag(Ps))
        fn = getattr(util(), f"{self.kind}_symmetric_decomposition")
        A, D = fn(ca.SX(P))
        return ca.Function("factor", [Ps], [ca.SX(A), ca.SX(D), ca.SX(P)])

    def make_ctx(self):
        ctx = Ctx()
        pn, PM = lower_vals("P", self.n)
        ctx.aux = {}
        return ctx, [pn]

    def claims(self, outs, ins, aux):
        A, D, P = outs
        n = self.n
        cl = entry_claims("reconstruct", V.mat_mul(V.mat_mul(A, D), V.mat_T(A)), P)
        for i in range(n):
            cl.append(Claim(f"unit_diag[{i}]", A[i][i], 1))
            for j in range(n):
                if i != j:
                    cl.append(Claim(f"D_diag[{i},{j}]", D[i][j], 0))
                if (self.kind == "ldl" and j > i) or (self.kind == "udu" and j < i):
                    cl.append(Claim(f"triangular[{i},{j}]", A[i][j], 0))
        return cl


def poly_f(c, t, y, deg=3):
    """sum_{i+j<=deg} c_ij t^i y^j  (c: dict (i,j) -> coefficient)"""
    acc = 0
    for (i, j), cij in c.items():
        acc = acc + cij * (t ** i) * (y ** j)
    return acc


IDX = [(i, j) for i in range(4) for j in range(4) if i + j <= 3]


class RK4(Harness):
    """one-step consistency of order 4: d^k/dh^k rk4(f, t, y, h) at h = 0 equals the k-th total time derivative of the
    exact solution for k = 0..4 (f a bivariate cubic with symbolic coefficients);  exact for f = cubic in t"""
    timeout_ms = 60000

    def __init__(self, part):
        self.part = part
        self.name = f"C10:rk4:{part}"

    def build(self):
        rk4 = util().rk4
        t, y, h = ca.SX.sym("t"), ca.SX.sym("y"), ca.SX.sym("h")
        c = ca.SX.sym("c", len(IDX))
        cd = {ij: c[k] for k, ij in enumerate(IDX)}
        if self.part == "cubic_in_t":
            f = lambda tt, yy: poly_f({(i, 0): cd[(i, 0)] for i in range(4)}, tt, yy)
            y1 = rk4(f, t, y, h)
            exact = y + sum(cd[(i, 0)] * ((t + h) ** (i + 1) - t ** (i + 1)) / (i + 1) for i in range(4))
            return ca.Function("rk4_cubic", [t, y, h, c], [y1, exact])
        f = lambda tt, yy: poly_f(cd, tt, yy)
        y1 = rk4(f, t, y, h)
        outs = []
        d = y1
        Dk = y
        for k in range(5):
            outs.append(ca.substitute(d, h, 0))
            outs.append(Dk)
            d = ca.jacobian(d, h)
            Dk = (ca.jacobian(Dk, t) + ca.jacobian(Dk, y) * f(t, y)) if k > 0 else f(t, y)
        return ca.Function("rk4_order", [t, y, h, c], outs)

    def make_ctx(self):
        ctx = Ctx()
        ctx.aux = {}
        ctx.snap_constants = True  # CasADi stores x/6 as x*0.1666..(double): read such constants as the rational
        return ctx, [[Val.var("t")], [Val.var("y")], [Val.var("h")], [Val.var(f"c{i}{j}") for (i, j) in IDX]]

    def claims(self, outs, ins, aux):
        if self.part == "cubic_in_t":
            return [Claim("exact_for_cubic", outs[0][0][0], outs[1][0][0])]
        return [Claim(f"order_condition[k={k}]", outs[2 * k][0][0], outs[2 * k + 1][0][0]) for k in range(5)]


class RK4Vector(Harness):
    """vector field: rk4 acts componentwise consistently (2-dimensional linear system y' = A y + b t): exact flow
    agreement up to h^4, checked as derivatives in h at 0"""
    timeout_ms = 60000

    def __init__(self):
        self.name = "C10:rk4:vector_linear"

    def build(self):
        rk4 = util().rk4
        t, h = ca.SX.sym("t"), ca.SX.sym("h")
        y = ca.SX.sym("y", 2)
        A = ca.SX.sym("A", 2, 2)
        b = ca.SX.sym("b", 2)
        f = lambda tt, yy: A @ yy + b * tt
        y1 = rk4(f, t, y, h)
        outs = []
        d = y1
        Dk = y
        for k in range(5):
            outs.append(ca.substitute(d, h, 0))
            outs.append(Dk)
            d = ca.jacobian(d, h)
            Dk = (ca.jacobian(Dk, t) + ca.jacobian(Dk, y) @ f(t, y)) if k > 0 else f(t, y)
        return ca.Function("rk4_vec", [t, y, h, ca.vec(A), b], outs)

    def make_ctx(self):
        ctx = Ctx()
        ctx.aux = {}
        ctx.snap_constants = True
        return ctx, [[Val.var("t")], [Val.var("y0"), Val.var("y1")], [Val.var("h")],
                     [Val.var(f"A{k}") for k in range(4)], [Val.var("b0"), Val.var("b1")]]

    def claims(self, outs, ins, aux):
        cl = []
        for k in range(5):
            for i in range(2):
                cl.append(Claim(f"order_condition[k={k}][{i}]", outs[2 * k][i][0], outs[2 * k + 1][i][0]))
        return cl


def all_harnesses(tier):
    hs = []
    # n = 1 is outside the range: the routine needs a non-empty strict upper triangle (it raises for a scalar state)
    for n in ((2, 3) if tier == "quick" else (2, 3, 4)):
        hs.append(CovPredict(n))
    # (n_x, n_y) = (2, 2): every entry except (W+ W+^T)[1,1] was proved during development; that one entry
    # (a degree > 30 identity in 10 variables) times out in z3 and in the exact normaliser, so the
    # configuration is not part of the claim (see BOUNDS)
    dims = [(1, 1), (2, 1)]  # (3, 1) was proved in some runs but its last entry is not robustly within the time caps
    if tier == "thorough":
        dims += []
    for nx, ny in dims:
        hs.append(Correct(nx, ny))
    # two coupled measurement channels: innovation factor, gain and triangular shape (the W+ W+^T identity has one
    # entry that is not decided within the time caps and is left out for this configuration)
    hs.append(Correct(2, 2, skip_wp=True))
    # larger measurement dimensions (the estimators use n_y <= 2; the statement quantifies over a range): everything
    # sqrt_correct does after the QR factorisation, for every triangular factor
    for nx, ny in ((2, 3), (3, 3), (6, 3)) if tier == "quick" else ((2, 3), (3, 3), (6, 3), (6, 4), (4, 6)):
        hs.append(CorrectAfterQR(nx, ny))

    for n in (range(1, 5) if tier == "quick" else range(1, 7)):
        hs.append(Factor("ldl", n))
        hs.append(Factor("udu", n))
    hs += [RK4("cubic_in_t"), RK4("order"), RK4Vector()]
    return hs


def get_harness(name, tier="quick"):
    for h in all_harnesses("thorough"):
        if h.name == name:
            return h
    raise KeyError(name)


def jobs(tier, seed):
    return harness_jobs(__name__, all_harnesses(tier), seed, tier)
