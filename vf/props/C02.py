"""C02 - the group exponential is the matrix exponential of the algebra element."""
from __future__ import annotations
import casadi as ca
import mpmath as mp
import z3

from ..harness import Harness, Claim, HarnessError, StructureChanged
from ..val import Val
from .. import val as V
from ..enc import Ctx
from ..stubs import SeriesStubs
from ..lieh import groups, family, algebra_input, algebra_of, n_alg, expm_oracle, MatrixCut
from ..runner import run_harness_job, harness_jobs

LEVEL = "proof"
TRUSTED = ["CasADi SX construction + instruction API", "IR->SMT encoder (validated against CasADi's VM on every run)",
           "closed forms of expm (Rodrigues, SE(2)/SE(3)/SE_2(3) V-matrix), self-tested against scipy.linalg.expm",
           "Weierstrass parametrisation of (sin, cos); meaning of the series keys (oracles.series_oracle)",
           "C06 series lemmas (run as part of this check)", "z3 5.1.0 nlsat"]
ASSUMPTIONS = ["real arithmetic with the code's exact double constants (no rounding)",
               "S^2 stereographic chart misses the axis (0,0,-1) (measure zero); theta = 2*pi excluded for MRP"]
BOUNDS = {"quick": {"theta": "(0, 2pi) symbolic via stubs; theta >= 0.1 inlined; theta = 0 exact constant evaluation"},
          "thorough": {"theta": "same + composition law on two lattice angles"}}
EXPLANATION = ("E obligations: real exp code executed on SX with series-coefficient stubs bound to the exact "
               "functions of the recorded argument; every matrix entry compared with the closed-form expm "
               "as a polynomial identity on rational charts; decided by z3 (unsat = holds for all inputs of the cell)")

GROUPS = ["SO2", "SE2", "R2", "R3", "SO3Quat", "SO3Mrp", "SO3Dcm", "SO3EulerB321", "SE3Quat", "SE3Mrp",
          "SE23Quat", "SE23Mrp"]


def entry_claims(tag, L, R, tol=None):
    cl = []
    for i in range(len(R)):
        for j in range(len(R[0])):
            cl.append(Claim(f"{tag}[{i},{j}]", L[i][j], R[i][j], "eq", tol))
    return cl


class ExpStub(Harness):
    """E: M(exp(x)) = expm(x^) for theta > 0 (one cell, both sides of every series switch)"""
    timeout_ms = 60000

    def __init__(self, gname, law="expm"):
        self.gname = gname
        self.fam = family(gname)
        self.law = law
        self.name = f"C02:{law}:stub:{gname}"

    def _real(self, x, cut=True):
        """real exp code; for groups whose exp ends in from_Matrix (SE_2(3), Euler) the harness cuts
        there: the obligation is that the matrix handed to from_Matrix is expm(x^) and that exp
        returns that element untouched; M(from_Matrix(A)) = A is the C01/C07 lemma."""
        G = groups()[self.gname]
        alg = algebra_of(self.fam)
        use_cut = cut and (self.fam == "SE23" or self.gname == "SO3EulerB321")
        if not use_cut:
            X = alg.elem(x).exp(G)
            outs = [X.to_Matrix()]
            if self.law == "neg":
                outs.append(alg.elem(-x).exp(G).to_Matrix())
            return outs
        outs = []
        for xx in ([x, -x] if self.law == "neg" else [x]):
            with MatrixCut() as mc:
                X = alg.elem(xx).exp(G)
            if len(mc.calls) != 1 or not ca.is_equal(X.param, mc.calls[0][2], 2):
                raise StructureChanged(f"{self.gname}.exp does not end in a single from_Matrix call")
            outs.append(mc.calls[0][1])
        return outs

    def build(self):
        x = ca.SX.sym("x", n_alg(self.fam))
        self.x = x
        with SeriesStubs() as st:
            outs = self._real(x)
        self.st = st
        ins = [x] + ([ca.vertcat(*st.coef_syms())] if st.calls else [])
        return ca.Function(f"exp_{self.gname}", ins, outs)

    def build_real(self):
        x = ca.SX.sym("x", n_alg(self.fam))
        return ca.Function(f"exp_{self.gname}_real", [x], self._real(x, cut=False))

    def make_ctx(self):
        ctx = Ctx()
        xin, aux = algebra_input(ctx, self.fam)
        self.lat = aux.pop("_lat", None)
        if self.fam in ("SO2", "SE2"):
            ctx.assume(aux["th"].num_term() != 0)
        ctx.aux = aux
        coefs = self.st.bind(ctx, [xin], [self.x])
        return ctx, [xin] + ([coefs] if coefs else [])

    def env_fix(self, env):
        if self.lat is not None:
            self.lat.concretize(env)
        if self.fam in ("SO2", "SE2"):
            env["s"] = mp.sin(env["th"])
            env["c"] = mp.cos(env["th"])

    def claims(self, outs, ins, aux):
        E = expm_oracle(self.fam, aux)
        if self.law == "expm":
            return entry_claims("expm", outs[0], E)
        if self.law == "neg":
            n = len(E)
            return entry_claims("expneg", V.mat_mul(outs[1], outs[0]), V.mat_eye(n))


class ExpInline(ExpStub):
    """cross-check without stubs on the closed-form cell (theta >= 0.1)"""

    def __init__(self, gname):
        super().__init__(gname, "expm")
        self.name = f"C02:expm:inline:{gname}"

    def build(self):
        x = ca.SX.sym("x", n_alg(self.fam))
        self.x = x
        return ca.Function(f"exp_{self.gname}", [x], self._real(x))

    build_real = build

    def make_ctx(self):
        ctx = Ctx()
        xin, aux = algebra_input(ctx, self.fam)
        self.lat = aux.pop("_lat", None)
        th = aux.get("th")
        if self.fam in ("SO2", "SE2"):
            ctx.assume(z3.Or(V.ge(th, Val.const("1/10")), V.le(th, Val.const("-1/10"))))
        elif th is not None:
            ctx.assume(V.ge(th, Val.const("1/10")))
        ctx.aux = aux
        return ctx, [xin]


class ExpZero(Harness):
    """exp(0) = identity, exact constant evaluation through the Taylor cells"""

    def __init__(self, gname):
        self.gname = gname
        self.fam = family(gname)
        self.name = f"C02:zero:{gname}"
        self.n_validate = 1

    def build(self):
        G = groups()[self.gname]
        alg = algebra_of(self.fam)
        d = ca.SX.sym("dummy")
        X = alg.elem(ca.SX.zeros(n_alg(self.fam), 1) * d).exp(G)
        Xd = alg.elem(ca.DM.zeros(n_alg(self.fam), 1)).exp(G)
        return ca.Function(f"exp0_{self.gname}", [d], [X.to_Matrix(), Xd.to_Matrix()])

    def make_ctx(self):
        ctx = Ctx()
        ctx.aux = {}
        return ctx, [[Val.var("dummy")]]

    def claims(self, outs, ins, aux):
        n = len(outs[0])
        return entry_claims("exp0", outs[0], V.mat_eye(n)) + entry_claims("exp0dm", outs[1], V.mat_eye(n))


class ExpCompose(Harness):
    """exp((s+t) x) = exp(s x) exp(t x): generator xi = (v, n) with unit axis n, angles a = s|w|, b = t|w| on two
    lattices, a + b by the addition formulas (tan of the quarter angle included, for the MRP chart)"""
    timeout_ms = 120000

    def __init__(self, gname):
        self.gname = gname
        self.fam = family(gname)
        self.name = f"C02:compose:{gname}"
        if self.fam != "SO3":
            self.shards = 4

    def _real(self, x1, x2, x3):
        G = groups()[self.gname]
        alg = algebra_of(self.fam)
        return [alg.elem(x1).exp(G).to_Matrix(), alg.elem(x2).exp(G).to_Matrix(), alg.elem(x3).exp(G).to_Matrix()]

    def build(self):
        n = n_alg(self.fam)
        self.sx = [ca.SX.sym(f"x{k}", n) for k in range(3)]
        with SeriesStubs() as st:
            outs = self._real(*self.sx)
        self.st = st
        ins = list(self.sx) + ([ca.vertcat(*st.coef_syms())] if st.calls else [])
        return ca.Function(f"compose_{self.gname}", ins, [ca.SX(o) for o in outs])

    def build_real(self):
        n = n_alg(self.fam)
        sx = [ca.SX.sym(f"x{k}", n) for k in range(3)]
        return ca.Function("compose_real", sx, [ca.SX(o) for o in self._real(*sx)])

    def make_ctx(self):
        from ..oracles import Lattice, s2_chart
        from ..enc import Angle
        ctx = Ctx()
        La = Lattice(ctx, "tha", "quarter")
        Lb = Lattice(ctx, "thb", "quarter")
        self.lats = [La, Lb]
        A, B = La.A2, Lb.A2
        sh = A.sin * B.cos + A.cos * B.sin
        ch = A.cos * B.cos - A.sin * B.sin
        tq = (La.tan4 + Lb.tan4) / (1 - La.tan4 * Lb.tan4)
        th = La.th + Lb.th
        ctx.angles += [Angle(th / 4, tan=tq, name="(a+b)/4"), Angle(th / 2, sin=sh, cos=ch, name="(a+b)/2"),
                       Angle(th, sin=2 * sh * ch, cos=ch * ch - sh * sh, name="a+b")]
        ctx.roots += [th, th / 2]
        a_, b_ = Val.var("a"), Val.var("b")
        n = s2_chart(a_, b_)
        v = [Val.var(f"v{i}") for i in range(3)] if self.fam == "SE3" else []

        def gen(angle):
            return [angle * vi for vi in v] + [angle * n[i] for i in range(3)]
        xs = [gen(La.th), gen(Lb.th), gen(th)]
        ctx.aux = {}
        coefs = self.st.bind(ctx, xs, self.sx)
        return ctx, xs + ([coefs] if coefs else [])

    def env_fix(self, env):
        for L in self.lats:
            L.concretize(env)

    def claims(self, outs, ins, aux):
        return entry_claims("compose", outs[2], V.mat_mul(outs[0], outs[1]))


def all_harnesses(tier):
    hs = []
    if tier == "thorough":
        for g in ("SO3Quat", "SO3Dcm", "SO3Mrp", "SE3Quat"):
            hs.append(ExpCompose(g))
    for g in GROUPS:
        hs.append(ExpStub(g, "expm"))
        hs.append(ExpZero(g))
        if family(g) not in ("R2", "R3"):
            hs.append(ExpInline(g))
            hs.append(ExpStub(g, "neg"))
    return hs


def lemma_harnesses():
    """the from_Matrix / from_Quat leaf lemmas this property's modular (cut) obligations rest on (owned by C07);
    they are re-discharged here so that this check alone notices a broken leaf"""
    from . import C07
    return [C07.FromMatrixLeaf(1), C07.FromMatrixLeaf(-1), C07.EulerLeaf(), C07.Direct("Mrp", "Quat"),
            C07.Direct("Mrp", "Quat", -1), C07.Shadow()]


def get_harness(name, tier="quick"):
    for h in all_harnesses(tier) + lemma_harnesses():
        if h.name == name:
            return h
    raise KeyError(name)


def jobs(tier, seed):
    return harness_jobs(__name__, all_harnesses(tier) + lemma_harnesses(), seed, tier)
