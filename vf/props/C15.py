"""C15 - controller laws respect their saturations and vanish exactly at zero error.

Bounds on recursive state are proved as one-step obligations from an *arbitrary* previous state, so they
hold after any number of steps (inductive invariants)."""
from __future__ import annotations
from fractions import Fraction
import casadi as ca
import mpmath as mp
import z3

from ..harness import Harness, Claim, HarnessError, StructureChanged
from ..val import Val
from .. import val as V
from ..enc import Ctx, Angle
from ..oracles import Lattice, s2_chart, s3_chart, quat_mul
from ..runner import run_harness_job, harness_jobs
from .C03 import Stubbed, log_oracle

LEVEL = "proof"
TRUSTED = ["CasADi SX construction + instruction API", "IR->SMT encoder (validated against CasADi's VM on every run)",
           "angle lattice / S^3 charts; closed-form logarithm (C03 oracle)", "z3 5.1.0 nlsat"]
ASSUMPTIONS = ["real arithmetic (no IEEE rounding)", "i_max >= 0, dt > 0, f_cut > 0; sticks in [-1, 1]",
               "pi is the code's double constant (the yaw wrap interval is [-pi_double, pi_double])",
               "attitude error laws: reference = +-(measured (x) rotation(phi, n)), phi in (0, pi); phi = 0 exactly by "
               "constant evaluation"]
BOUNDS = {"steps": "one step from an arbitrary previous state (inductive)"}
EXPLANATION = "one-step inductive bounds and the Lie-algebra error laws as per-cell SMT obligations"


def rdd2():
    import cyecca.models.rdd2 as r
    return r


def loglin():
    import cyecca.models.rdd2_loglinear as r
    return r


def const(x, like):
    return Val(Fraction(x)) if isinstance(like, Val) else mp.mpf(x)


class RateControl(Harness):
    """attitude_rate_control: |i1| <= i_max (any i0), 0 < alpha < 1, e1 = w_r - w, M = kp e1 + ki i1 + kd de1,
    de1 = alpha (e1 - e0)/dt + (1 - alpha) de0"""
    timeout_ms = 30000
    max_cells = 64

    def __init__(self):
        self.name = "C15:rate_control"

    def build(self):
        f = rdd2().derive_attitude_rate_control()["attitude_rate_control"]
        names = [f.name_in(i) for i in range(f.n_in())]
        if names != ["kp", "ki", "kd", "f_cut", "i_max", "omega", "omega_r", "i0", "e0", "de0", "dt"]:
            raise StructureChanged(f"attitude_rate_control signature changed: {names}")
        return f

    def make_ctx(self):
        ctx = Ctx()
        v3 = lambda n: [Val.var(f"{n}{i}") for i in range(3)]
        kp, ki, kd, imax, w, wr, i0, e0, de0 = (v3(n) for n in ("kp", "ki", "kd", "imax", "w", "wr", "i0", "e0", "de0"))
        fc, dt = Val.var("f_cut"), Val.var("dt")
        ctx.assume(fc.num_term() > 0, dt.num_term() > 0)
        for x in imax:
            ctx.assume(V.ge(x, 0))
        ctx.aux = {}
        return ctx, [kp, ki, kd, [fc], imax, w, wr, i0, e0, de0, [dt]]

    def claims(self, outs, ins, aux):
        M, i1, e1, de1, alpha = outs
        kp, ki, kd, fc, imax, w, wr, i0, e0, de0, dt = ins
        a = alpha[0][0]
        cl = [Claim("alpha>0", a, 0, "gt"), Claim("alpha<1", a, 1, "lt")]
        for k in range(3):
            cl.append(Claim(f"i1<=imax[{k}]", i1[k][0], imax[k], "le"))
            cl.append(Claim(f"i1>=-imax[{k}]", i1[k][0], -imax[k], "ge"))
            cl.append(Claim(f"i1_unsat[{k}]", i1[k][0], i0[k] + e1[k][0] * dt[0],
                            guard=((i0[k] + e1[k][0] * dt[0]) * (i0[k] + e1[k][0] * dt[0]), "le", imax[k] * imax[k])))
            cl.append(Claim(f"e1[{k}]", e1[k][0], wr[k] - w[k]))
            cl.append(Claim(f"de1[{k}]", de1[k][0], a * (e1[k][0] - e0[k]) / dt[0] + (1 - a) * de0[k]))
            cl.append(Claim(f"M[{k}]", M[k][0], kp[k] * e1[k][0] + ki[k] * i1[k][0] + kd[k] * de1[k][0]))
        return cl


class InputVelocity(Harness):
    """input_velocity: psi_sp1 in [-pi, pi]; |pw_sp1 - pw| <= 2; reset => pw_sp1 = pw; yaw rate and velocity set-point
    are the documented linear maps of the sticks"""
    timeout_ms = 60000
    max_cells = 64

    def __init__(self):
        self.name = "C15:input_velocity"

    def build(self):
        f = rdd2().derive_input_velocity()["input_velocity"]
        if [f.name_out(i) for i in range(f.n_out())] != ["psi_sp1", "psi_vel_sp", "pw_sp1", "vw_sp", "aw_sp", "q_sp"]:
            raise StructureChanged("input_velocity outputs changed")
        si = f.sx_in()
        so = f(*si)
        return ca.Function("input_velocity_sel", si, [so[0], so[1], so[2], so[3]])

    def make_ctx(self):
        ctx = Ctx()
        dt = Val.var("dt")
        ctx.assume(dt.num_term() > 0)
        st = [Val.var(f"stick{i}") for i in range(4)]
        for s in st:
            ctx.assume(V.le(s, 1), V.ge(s, -1))
        ctx.aux = {}
        return ctx, [[dt], [Val.var("psi_sp")], [Val.var(f"pwsp{i}") for i in range(3)],
                     [Val.var(f"pw{i}") for i in range(3)], st, [Val.var("reset")]]

    def claims(self, outs, ins, aux):
        psi1, psiv, pwsp1, vw = outs
        dt, psi, pwsp, pw, st, reset = ins
        like = dt[0]
        import math
        pi = const(math.pi, like)
        d2r = const(rdd2().deg2rad, like)
        cl = [Claim("yaw<=pi", psi1[0][0], pi, "le", tol=1e-12), Claim("yaw>=-pi", psi1[0][0], -pi, "ge", tol=1e-12),
              Claim("yaw_rate", psiv[0][0], const(60 * rdd2().deg2rad, like) * st[3])]
        e = [pwsp1[i][0] - pw[i] for i in range(3)]
        cl.append(Claim("leash", V.dot(e, e), 4, "le", tol=1e-9))
        for i in range(3):
            cl.append(Claim(f"reset[{i}]", pwsp1[i][0], pw[i], guard=(reset[0], "ne", 0)))
        cl.append(Claim("vz", vw[2][0], st[2]))
        cl.append(Claim("vxy_norm", vw[0][0] * vw[0][0] + vw[1][0] * vw[1][0], 4 * st[0] * st[0] + 4 * st[1] * st[1]))
        return cl


class InputAcro(Harness):
    """input_acro: rates = rate_max * deg2rad * stick (bounded for |stick| <= 1), thrust = stick * delta + trim"""

    def __init__(self):
        self.name = "C15:input_acro"

    def build(self):
        return rdd2().derive_input_acro()["input_acro"]

    def make_ctx(self):
        ctx = Ctx()
        st = [Val.var(f"stick{i}") for i in range(4)]
        for s in st:
            ctx.assume(V.le(s, 1), V.ge(s, -1))
        ctx.aux = {}
        return ctx, [[Val.var("trim")], [Val.var("delta")], st]

    def claims(self, outs, ins, aux):
        w, thrust = outs
        trim, delta, st = ins
        r = rdd2()
        like = st[0]
        rp = const(r.rollpitch_rate_max * r.deg2rad, like)
        yw = const(r.yaw_rate_max * r.deg2rad, like)
        cl = [Claim("roll_rate", w[0][0], rp * st[0]), Claim("pitch_rate", w[1][0], rp * st[1]),
              Claim("yaw_rate", w[2][0], yw * st[3]), Claim("thrust", thrust[0][0], st[2] * delta[0] + trim[0])]
        for k, lim in ((0, rp), (1, rp), (2, yw)):
            cl.append(Claim(f"bounded_hi[{k}]", w[k][0], lim, "le"))
            cl.append(Claim(f"bounded_lo[{k}]", w[k][0], -lim, "ge"))
        return cl


class PositionSaturation(Harness):
    """position_control: the feedback term (thrust vector minus trim and integral feed-through) never exceeds 30 % of
    the weight; the height integrator stays within its limit.  Internal vectors are observed by recording the
    arguments of casadi.norm_2 while the real derive function runs (call-through, nothing is altered)."""
    timeout_ms = 60000
    max_cells = 64

    def __init__(self):
        self.name = "C15:position_saturation"

    def build(self):
        import casadi
        r = rdd2()
        rec = []
        orig = casadi.norm_2

        def spy(x):
            rec.append(x)
            return orig(x)
        casadi.norm_2 = spy
        try:
            f = r.derive_position_control()["position_control"]
        finally:
            casadi.norm_2 = orig
        if len(rec) < 2 or rec[0].shape != (3, 1) or rec[1].shape != (3, 1):
            raise StructureChanged("position_control: expected norm_2 of the feedback term and of the thrust vector")
        names = [f.name_in(i) for i in range(f.n_in())]
        if names != ["thrust_trim", "pt_w", "vt_w", "at_w", "qc_wb", "p_w", "v_w", "z_i", "dt"]:
            raise StructureChanged(f"position_control signature changed: {names}")
        si = f.sx_in()
        so = f(*si)
        return ca.Function("poscontrol_sel", si, [rec[1], so[2], so[0]])

    def make_ctx(self):
        ctx = Ctx()
        v3 = lambda n: [Val.var(f"{n}{i}") for i in range(3)]
        ctx.aux = {}
        return ctx, [[Val.var("trim")], v3("pt"), v3("vt"), v3("at"), [Val.var(f"qc{i}") for i in range(4)], v3("p"),
                     v3("v"), [Val.var("z_i")], [Val.var("dt")]]

    def claims(self, outs, ins, aux):
        T, zi2, nT = outs
        trim, pt, vt, at, qc, p, v, zi, dt = ins
        r = rdd2()
        like = trim[0]
        fb = [T[0][0], T[1][0], T[2][0] - trim[0] - const(r.ki_z, like) * zi[0]]
        lim = const(0.3 * r.m * r.g, like)
        zmax = const(r.z_integral_max, like)
        return [Claim("feedback<=30%weight", V.dot(fb, fb), lim * lim, "le", tol=1e-9),
                Claim("z_i<=max", zi2[0][0], zmax, "le"), Claim("z_i>=-max", zi2[0][0], -zmax, "ge"),
                Claim("thrust_is_norm", nT[0][0] * nT[0][0], V.dot([T[0][0], T[1][0], T[2][0]], [T[0][0], T[1][0], T[2][0]])),
                Claim("thrust>=0", nT[0][0], 0, "ge")]


# ---- attitude error laws ------------------------------------------------------------------------------------------

LAWS = {"attitude_control": (rdd2, "derive_attitude_control"),
        "so3_attitude_control": (loglin, "derive_so3_attitude_control")}


def law_expr(name, kp, q, q_r):
    """the law as the statement describes it, built from the library operations (analysed with series stubs)"""
    import cyecca.lie as lie
    X, Xr = lie.SO3Quat.elem(q), lie.SO3Quat.elem(q_r)
    e = (X.inverse() * Xr).log()
    if name == "attitude_control":
        return kp * e.param
    return lie.so3.elem(e.param).left_jacobian() @ ca.diag(kp) @ e.param


class LawIsExpr(Harness):
    """the shipped CasADi function equals the library expression analysed below, on all branch cells"""
    timeout_ms = 30000
    max_cells = 64

    def __init__(self, name):
        self.fname = name
        self.name = f"C15:{name}:function_is_expression"

    def build(self):
        mod, der = LAWS[self.fname]
        f = getattr(mod(), der)()[self.fname]
        if [f.name_in(i) for i in range(f.n_in())] != ["kp", "q", "q_r"]:
            raise StructureChanged("attitude law signature changed")
        kp, q, qr = ca.SX.sym("kp", 3), ca.SX.sym("q", 4), ca.SX.sym("qr", 4)
        return ca.Function("law_eq", [kp, q, qr], [f(kp, q, qr), law_expr(self.fname, kp, q, qr)])

    def make_ctx(self):
        ctx = Ctx()
        ctx.aux = {}
        return ctx, [[Val.var(f"kp{i}") for i in range(3)], [Val.var(f"q{i}") for i in range(4)],
                     [Val.var(f"r{i}") for i in range(4)]]

    def claims(self, outs, ins, aux):
        return [Claim(f"same[{i}]", outs[0][i][0], outs[1][i][0]) for i in range(3)]


class ProductReduces(Harness):
    """stage A: for unit q and q_r = sign * (q (x) d) the relative element X^-1 X_r has parameters sign * d exactly"""
    timeout_ms = 30000

    def __init__(self, sign):
        self.sign = sign
        self.name = "C15:relative_attitude" + ("" if sign == 1 else ":antipodal")

    def build(self):
        import cyecca.lie as lie
        q, qr = ca.SX.sym("q", 4), ca.SX.sym("qr", 4)
        return ca.Function("rel", [q, qr], [(lie.SO3Quat.elem(q).inverse() * lie.SO3Quat.elem(qr)).param])

    def make_ctx(self):
        ctx = Ctx()
        u = [Val.var(f"u{i}") for i in range(3)]
        q = s3_chart(u[0], u[1], u[2])
        d = [Val.var(f"d{i}") for i in range(4)]
        qr = [self.sign * x for x in quat_mul(q, d)]
        ctx.aux = dict(d=d)
        return ctx, [q, qr]

    def claims(self, outs, ins, aux):
        return [Claim(f"rel[{i}]", outs[0][i][0], self.sign * aux["d"][i]) for i in range(4)]


class AttitudeLaw(Stubbed):
    """stage B: with the relative element d = sign * (cos phi/2, sin phi/2 n), phi in (0, pi) (stage A; the shipped
    function depends on (q, q_r) only through X^-1 X_r: function_is_expression):  e = log(d) = phi n for either
    sign, hence omega = kp o (phi n)  resp.  J_l(phi n) diag(kp) phi n;  M(q) M(exp e) = M(q_r) follows with C02"""
    timeout_ms = 60000

    def __init__(self, name, sign):
        self.fname, self.sign = name, sign
        self.name = f"C15:{name}:law" + ("" if sign == 1 else ":antipodal")
        self.n_in = (3, 4)

    def _real(self, kp, d):
        import cyecca.lie as lie
        ident = ca.DM([1, 0, 0, 0])
        out = [law_expr(self.fname, kp, ident, d)]
        if self.fname == "so3_attitude_control":
            e = (lie.SO3Quat.elem(ident).inverse() * lie.SO3Quat.elem(d)).log()
            out.append(e.param)
        return out

    def _inputs(self, ctx):
        L = Lattice(ctx, "phi", "quarter", below_pi=True)
        self.lats = [L]
        a, b = Val.var("a"), Val.var("b")
        n = s2_chart(a, b)
        d = [self.sign * x for x in [L.c2, L.s2 * n[0], L.s2 * n[1], L.s2 * n[2]]]
        kp = [Val.var(f"kp{i}") for i in range(3)]
        ctx.aux = dict(th=L.th, n=n, s=L.s, c=L.c, kp=kp)
        return [kp, d]

    def claims(self, outs, ins, aux):
        w = outs[0]
        th, n, kp, s, c = aux["th"], aux["n"], aux["kp"], aux["s"], aux["c"]
        e = [th * n[i] for i in range(3)]
        if self.fname == "attitude_control":
            return [Claim(f"omega[{i}]", w[i][0], kp[i] * e[i]) for i in range(3)]
        N = V.hat(n)
        N2 = V.mat_mul(N, N)
        Jl = V.mat_add(V.mat_eye(3), V.mat_add(V.mat_scale((1 - c) / th, N), V.mat_scale((th - s) / th, N2)))
        ref = V.mat_vec(Jl, [kp[i] * e[i] for i in range(3)])
        return ([Claim(f"omega[{i}]", w[i][0], ref[i]) for i in range(3)]
                + [Claim(f"error[{i}]", outs[1][i][0], e[i]) for i in range(3)])


class LawZero(Harness):
    """q_r = +-q (same rotation): the command is exactly zero (constant evaluation through the Taylor cells)"""
    timeout_ms = 30000
    max_cells = 16

    def __init__(self, name, sign):
        self.fname, self.sign = name, sign
        self.name = f"C15:{name}:zero_error" + ("" if sign == 1 else ":antipodal")

    def build(self):
        mod, der = LAWS[self.fname]
        f = getattr(mod(), der)()[self.fname]
        kp, q = ca.SX.sym("kp", 3), ca.SX.sym("q", 4)
        return ca.Function("law0", [kp, q], [f(kp, q, self.sign * q)])

    def make_ctx(self):
        ctx = Ctx()
        u = [Val.var(f"u{i}") for i in range(3)]
        ctx.aux = {}
        return ctx, [[Val.var(f"kp{i}") for i in range(3)], s3_chart(u[0], u[1], u[2])]

    def claims(self, outs, ins, aux):
        return [Claim(f"omega[{i}]", outs[0][i][0], 0) for i in range(3)]


class SE23Error(Harness):
    """se23_error: zeta = log(X^-1 X_r).  Stage A: with X_r = X * (dp, dv, sign*d) (unit q) the relative element has
    exactly the parameters (dp, dv, sign*d); its logarithm is the closed-form SE_2(3) log (C03: logprincipal:SE23Quat:+/-),
    zero for a zero increment (C03: logzero)."""
    timeout_ms = 60000

    def __init__(self, sign=1):
        self.sign = sign
        self.name = "C15:se23_relative_element" + ("" if sign == 1 else ":antipodal")

    def build(self):
        import cyecca.lie as lie
        x, xr = ca.SX.sym("x", 10), ca.SX.sym("xr", 10)
        return ca.Function("se23rel", [x, xr], [(lie.SE23Quat.elem(x).inverse() * lie.SE23Quat.elem(xr)).param])

    def make_ctx(self):
        ctx = Ctx()
        u = [Val.var(f"u{i}") for i in range(3)]
        q = s3_chart(u[0], u[1], u[2])
        from ..oracles import quat_to_R
        R = quat_to_R(q)
        p = [Val.var(f"p{i}") for i in range(3)]
        v = [Val.var(f"v{i}") for i in range(3)]
        dp = [Val.var(f"dp{i}") for i in range(3)]
        dv = [Val.var(f"dv{i}") for i in range(3)]
        d = [Val.var(f"d{i}") for i in range(4)]
        qr = [self.sign * x for x in quat_mul(q, d)]
        Rdp, Rdv = V.mat_vec(R, dp), V.mat_vec(R, dv)
        pr = [p[i] + Rdp[i] for i in range(3)]
        vr = [v[i] + Rdv[i] for i in range(3)]
        ctx.aux = dict(ref=dp + dv + [self.sign * x for x in d])
        return ctx, [p + v + q, pr + vr + qr]

    def claims(self, outs, ins, aux):
        return [Claim(f"rel[{i}]", outs[0][i][0], aux["ref"][i]) for i in range(10)]


class SE23ErrorIsExpr(Harness):
    timeout_ms = 30000
    max_cells = 64

    def __init__(self):
        self.name = "C15:se23_error:function_is_expression"

    def build(self):
        import cyecca.lie as lie
        f = loglin().derive_se23_error()["se23_error"]
        if [f.name_in(i) for i in range(f.n_in())] != ["p_w", "v_w", "q_wb", "p_rw", "v_rw", "q_r"]:
            raise StructureChanged("se23_error signature changed")
        x, xr = ca.SX.sym("x", 10), ca.SX.sym("xr", 10)
        z = f(x[0:3], x[3:6], x[6:10], xr[0:3], xr[3:6], xr[6:10])
        ref = (lie.SE23Quat.elem(x).inverse() * lie.SE23Quat.elem(xr)).log().param
        return ca.Function("se23err_eq", [x, xr], [z, ref])

    def make_ctx(self):
        ctx = Ctx()
        ctx.aux = {}
        return ctx, [[Val.var(f"x{i}") for i in range(10)], [Val.var(f"y{i}") for i in range(10)]]

    def claims(self, outs, ins, aux):
        return [Claim(f"same[{i}]", outs[0][i][0], outs[1][i][0]) for i in range(9)]


def uf_function_is_expression(which):
    """custom job: the shipped function and the library expression have congruent instruction lists (QF_UF)"""
    import time
    from ..ir import IR
    from ..uf import UFDomain, uf_outputs, uf_equiv
    t0 = time.time()
    name = f"C15:{which}:function_is_expression"
    h = SE23ErrorIsExpr() if which == "se23_error" else LawIsExpr(which)
    stats = dict(name=name, cells=1, queries=0, solver_time=0.0, functions=[], resolutions={})
    try:
        f = h.build()
    except HarnessError:
        raise
    except Exception as e:
        import traceback
        return dict(records=[dict(label="build", status="crash", harness=name, detail=f"{type(e).__name__}: {e}",
                                  trace=traceback.format_exc()[-1500:])], stats=stats)
    ir = IR(f)
    stats["functions"].append(dict(function=f.name(), instructions=ir.n_instr, nodes=len(ir.nodes)))
    D = UFDomain()
    outs = uf_outputs(ir, D)
    res = uf_equiv(outs[0], outs[1], D)
    recs = []
    for k, r in res:
        st = {"unsat": "proved", "sat": "refuted", "unknown": "unknown"}[r]
        rec = dict(label=f"same[{k}]", status=st, harness=name, cell="uf", t=0.0)
        if st == "refuted":
            # not congruent: fall back to a numeric differential run on the real functions to confirm a difference
            import random
            rng = random.Random(k)
            from ..harness import _casadi_eval
            diff = None
            for _ in range(200):
                pt = [[rng.uniform(-1, 1) for _ in range(ir.in_nnz[i])] for i in range(ir.n_in)]
                o = _casadi_eval(f, pt)
                a, b = o[0][k][0], o[1][k][0]
                if not (a == b or (a != a and b != b)):
                    diff = dict(inputs=pt, function=a, expression=b)
                    break
            rec["replay"] = dict(confirmed=diff is not None, **(diff or {"reason": "terms differ syntactically but no numeric difference found"}))
            if diff is None:
                rec["status"] = "spurious"
        recs.append(rec)
        stats["queries"] += 1
    stats["wall"] = time.time() - t0
    stats["solver_time"] = stats["wall"]
    return dict(records=recs, stats=stats)


def all_harnesses(tier):
    hs = [RateControl(), InputVelocity(), InputAcro(), PositionSaturation(), ProductReduces(1), ProductReduces(-1)]
    for nm in LAWS:
        hs += [AttitudeLaw(nm, 1), AttitudeLaw(nm, -1), LawZero(nm, 1), LawZero(nm, -1)]
    hs += [SE23Error(1), SE23Error(-1)]
    return hs


def get_harness(name, tier="quick"):
    for h in all_harnesses(tier):
        if h.name == name:
            return h
    raise KeyError(name)


def jobs(tier, seed):
    js = harness_jobs(__name__, all_harnesses(tier), seed, tier)
    for w in ("attitude_control", "so3_attitude_control", "se23_error"):
        js.append((f"C15:{w}:function_is_expression", uf_function_is_expression, (w,)))
    return js
