"""C12 - the attitude estimator converges to the truth in closed-loop simulation.  PARTIAL (level: other).

The headline claim (convergence over 10^3-10^4 interleaved simulator/estimator steps) is outside solver reach and
is NOT decided.  What is decided for all attitudes/parameters are the necessary one-step facts the statement
also contains (DESIGN.md C12):
  L1  sensor models of the simulator: measure_accel(x, g, 0, 0) = M(r)^T (-g e3) (norm g); measure_mag(x, s, 0, 0, 0, 0)
      = M(r)^T (s e1) (norm s) [non-zero declination/inclination: not decided]; measure_gyro = omega + bias;
  L2  the truth is a fixed point of the estimator's corrections: with the estimator at the true attitude and the
      noise-free simulated measurement, the accelerometer innovation is exactly zero and the reading is accepted
      (error_code 0) [magnetometer fixed point: not decided]."""
from __future__ import annotations
from fractions import Fraction
import casadi as ca
import mpmath as mp
import z3

from ..harness import Harness, Claim, HarnessError
from ..val import Val
from .. import val as V
from ..enc import Ctx
from ..oracles import Lattice, quat_to_R, rotz, roty
from ..runner import run_harness_job, harness_jobs

LEVEL = "other"
TRUSTED = ["CasADi SX construction + instruction API", "IR->SMT encoder (validated against CasADi's VM on every run)",
           "MRP -> rotation matrix through the quaternion (1-|r|^2, 2r)/(1+|r|^2) (oracle)", "z3 5.1.0 nlsat"]
ASSUMPTIONS = ["real arithmetic", "declination / inclination in (0, 2pi) resp. (0, pi/2) outside the small-angle cells of the "
               "simulator's series (|angle|^2 >= 1e-3) - plus the exact value 0",
               "CONVERGENCE OF THE CLOSED LOOP IS NOT DECIDED (no bounded unrolling or certificate within reach)"]
BOUNDS = {"steps": "single evaluations of the sensor models and of one correction at the truth"}
EXPLANATION = ("necessary conditions only: sensor-model identities and 'truth is accepted with zero innovation', decided per "
               "branch cell by z3; they catch wrong-magnitude or wrong-frame measurements (everything rejected) but do not "
               "establish convergence, which is listed as not decided")


def mrp_R(r):
    n = V.dot(r, r)
    q = [(1 - n) / (1 + n), 2 * r[0] / (1 + n), 2 * r[1] / (1 + n), 2 * r[2] / (1 + n)]
    return quat_to_R(q)


def sim_eqs():
    import cyecca.estimate.attitude.algorithms.sim as s
    return s.eqs()


def mrp_eqs():
    import cyecca.estimate.attitude.algorithms.mrp as m
    return m.eqs()


class SensorModels(Harness):
    timeout_ms = 60000
    max_cells = 64

    def __init__(self, which, zero=()):
        self.which = which
        self.zero = tuple(zero)
        self.name = f"C12:sensor:{which}" + ("" if not zero else ":zero_" + "_".join(zero))

    def build(self):
        e = sim_eqs()
        x = ca.SX.sym("x", 6)
        if self.which == "accel":
            g = ca.SX.sym("g")
            return ca.Function("sa", [x, g], [e["measure_accel"](x, g, 0, ca.SX.zeros(3))])
        if self.which == "gyro":
            w = ca.SX.sym("w", 3)
            return ca.Function("sg", [x, w], [e["measure_gyro"](x, w, 0, ca.SX.zeros(3))])
        s, d, i = ca.SX.sym("s"), ca.SX.sym("d"), ca.SX.sym("i")
        dd = 0 if "decl" in self.zero else d
        ii = 0 if "incl" in self.zero else i
        return ca.Function("sm", [x, s, d, i], [e["measure_mag"](x, s, dd, ii, 0, ca.SX.zeros(3))])

    def make_ctx(self):
        ctx = Ctx()
        r = [Val.var(f"r{i}") for i in range(3)]
        b = [Val.var(f"b{i}") for i in range(3)]
        self.lats = []
        aux = dict(R=mrp_R(r), b=b)
        if self.which == "accel":
            ctx.aux = aux
            return ctx, [r + b, [Val.var("g")]]
        if self.which == "gyro":
            ctx.aux = aux
            return ctx, [r + b, [Val.var(f"w{i}") for i in range(3)]]
        Ld = Lattice(ctx, "decl", "half", positive=True)
        Li = Lattice(ctx, "incl", "half", positive=True)
        self.lats = [Ld, Li]
        lim = Val(Fraction(1, 1000))
        ctx.assume(V.ge(Ld.th * Ld.th, lim), V.ge(Li.th * Li.th, lim))
        sd, cd = (Val(0), Val(1)) if "decl" in self.zero else (Ld.s, Ld.c)
        si, ci = (Val(0), Val(1)) if "incl" in self.zero else (Li.s, Li.c)
        aux.update(sd=sd, cd=cd, si=si, ci=ci)
        ctx.aux = aux
        return ctx, [r + b, [Val.var("s")], [Ld.th], [Li.th]]

    def env_fix(self, env):
        for L in self.lats:
            L.concretize(env)

    def claims(self, outs, ins, aux):
        y = [outs[0][i][0] for i in range(3)]
        Rt = V.mat_T(aux["R"])
        cl = []
        if self.which == "accel":
            g = ins[1][0]
            ref = V.mat_vec(Rt, [0, 0, -g])
            cl.append(Claim("norm", V.dot(y, y), g * g))
        elif self.which == "gyro":
            ref = [ins[1][i] + aux["b"][i] for i in range(3)]
        else:
            s = ins[1][0]
            # Rz(decl) Ry(-incl) e1 = (cd ci, sd ci, si)
            Bn = [aux["cd"] * aux["ci"] * s, aux["sd"] * aux["ci"] * s, aux["si"] * s]
            ref = V.mat_vec(Rt, Bn)
            cl.append(Claim("norm", V.dot(y, y), s * s))
        cl += [Claim(f"value[{i}]", y[i], ref[i]) for i in range(3)]
        return cl


class TruthFixedPoint(Harness):
    """estimator correction evaluated at the truth with the noise-free measurement"""
    timeout_ms = 60000
    max_cells = 64

    def __init__(self, which):
        self.which = which
        self.name = f"C12:truth_fixed_point:{which}"

    def build(self):
        e = mrp_eqs()
        x = ca.SX.sym("x", 6)
        W = ca.SX.sym("W", ca.Sparsity.lower(6))
        y = ca.SX.sym("y", 3)
        if self.which == "accel":
            f = e["correct_accel"]
            if [f.name_in(i) for i in range(f.n_in())] != ["x", "W", "y_b", "g", "omega_b", "std_accel", "std_accel_omega", "beta_accel_c"]:
                raise HarnessError("correct_accel signature changed")
            g = ca.SX.sym("g")
            o = f(x, W, y, g, ca.SX.zeros(3), 0.035, 0, 9.2)
            return ca.Function("tfa", [x, W, y, g], [o[3], o[5]])
        f = e["correct_mag"]
        if [f.name_in(i) for i in range(f.n_in())] != ["x", "W", "y_b", "decl", "std_mag", "beta_mag_c"]:
            raise HarnessError("correct_mag signature changed")
        d = ca.SX.sym("d")
        o = f(x, W, y, d, 0.0025, 6.6)
        return ca.Function("tfm", [x, W, y, d], [o[3]])

    def make_ctx(self):
        ctx = Ctx()
        ctx.light_feasibility = True
        r = [Val.var(f"r{i}") for i in range(3)]
        b = [Val.var(f"b{i}") for i in range(3)]
        Wv = [Val.var(f"W{i}") for i in range(21)]
        R = mrp_R(r)
        Rt = V.mat_T(R)
        self.lats = []
        if self.which == "accel":
            g = Val.var("g")
            ctx.assume(V.ge(g, Val(Fraction(19, 2))), V.le(g, Val(Fraction(101, 10))))
            y = V.mat_vec(Rt, [0, 0, -g])
            ctx.aux = {}
            return ctx, [r + b, Wv, y, [g]]
        Ld = Lattice(ctx, "decl", "half", positive=False)
        Li = Lattice(ctx, "incl", "half", positive=False)
        self.lats = [Ld, Li]
        ctx.assume(Li.c.num_term() > 0, Li.u.num_term() < 1, Li.u.num_term() > -1)  # |incl| < pi/2: horizontal field component
        s = Val.var("s")
        ctx.assume(s.num_term() > 0)
        Bn = [Ld.c * Li.c * s, Ld.s * Li.c * s, Li.s * s]
        y = V.mat_vec(Rt, Bn)
        ctx.aux = {}
        return ctx, [r + b, Wv, y, [Ld.th]]

    def env_fix(self, env):
        for L in self.lats:
            L.concretize(env)

    def claims(self, outs, ins, aux):
        if self.which == "accel":
            return [Claim(f"innovation[{i}]", outs[0][i][0], 0) for i in range(2)] + [Claim("accepted", outs[1][0][0], 0)]
        return [Claim("innovation", outs[0][0][0], 0)]


def all_harnesses(tier):
    # the magnetometer model with non-zero declination/inclination and the magnetometer fixed point need the solver to
    # simplify C_nb C_nb^T on the MRP chart inside an atan2 resolution; those obligations came back with models that
    # do not replay (inconclusive) and are not part of the claim
    return [SensorModels("accel"), SensorModels("gyro"), SensorModels("mag", ("decl", "incl")), TruthFixedPoint("accel")]


def get_harness(name, tier="quick"):
    for h in all_harnesses(tier):
        if h.name == name:
            return h
    raise KeyError(name)


def jobs(tier, seed):
    return harness_jobs(__name__, all_harnesses(tier), seed, tier)
