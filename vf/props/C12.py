"""C12 - the attitude estimator converges to the truth in closed-loop simulation.  PARTIAL (level: other).

The headline claim (convergence over 10^3-10^4 interleaved simulator/estimator steps) is outside solver reach and
is NOT decided.  What is decided for all attitudes/parameters are the necessary one-step facts the statement
also contains (DESIGN.md C12):
  L1  sensor models of the simulator: measure_accel(x, g, 0, 0) = M(r)^T (-g e3) (norm g); measure_mag(x, s, 0, 0, 0, 0)
      = M(r)^T (s e1) (norm s) [non-zero declination/inclination: not decided]; measure_gyro = omega + bias;
  L2  the truth is a fixed point of the estimator's corrections: with the estimator at the true attitude and the
      noise-free simulated measurement, the accelerometer innovation is exactly zero and the reading is accepted
      (error_code 0) [magnetometer fixed point: not decided];
  L3  an accepted correction applies the gain of sqrt_correct to every state component: x+ = exp(K r) * x on
      SO3Mrp x R^3 (QF_UF congruence; a component the corrections never touch cannot converge - finding F20);
  L4  rate settings: the estimator node never skips a due correction (an IMU sample with dt > 0 arriving at least
      dt_min_accel - 1 ms after the previous accelerometer correction is used; same for the magnetometer) - CrossHair on
      the real node, <= 3 callbacks with arbitrary times."""
from __future__ import annotations
from fractions import Fraction
import casadi as ca
import mpmath as mp
import z3

from ..harness import Harness, Claim, HarnessError, StructureChanged
from ..val import Val
from .. import val as V
from ..enc import Ctx
from ..oracles import Lattice, quat_to_R, rotz, roty
from ..runner import run_harness_job, harness_jobs

LEVEL = "other"
TRUSTED = ["CasADi SX construction + instruction API", "IR->SMT encoder (validated against CasADi's VM on every run)",
           "MRP -> rotation matrix through the quaternion (1-|r|^2, 2r)/(1+|r|^2) (oracle)", "z3 5.1.0 nlsat"]
ASSUMPTIONS = ["real arithmetic", "declination / inclination in (0, 2pi) resp. (0, pi/2) outside the small-angle cells of the "
               "simulator's series (|angle|^2 >= 1e-3) - plus the exact value 0",
               "CONVERGENCE OF THE CLOSED LOOP IS NOT DECIDED (no bounded unrolling or certificate within reach)"]
BOUNDS = {"steps": "single evaluations of the sensor models and of one correction at the truth"}
EXPLANATION = ("necessary conditions only: sensor-model identities and 'truth is accepted with zero innovation', decided per "
               "branch cell by z3; they catch wrong-magnitude or wrong-frame measurements (everything rejected) but do not "
               "establish convergence, which is listed as not decided")


def mrp_R(r):
    n = V.dot(r, r)
    q = [(1 - n) / (1 + n), 2 * r[0] / (1 + n), 2 * r[1] / (1 + n), 2 * r[2] / (1 + n)]
    return quat_to_R(q)


def sim_eqs():
    import cyecca.estimate.attitude.algorithms.sim as s
    return s.eqs()


def mrp_eqs():
    import cyecca.estimate.attitude.algorithms.mrp as m
    return m.eqs()


class SensorModels(Harness):
    timeout_ms = 60000
    max_cells = 64

    def __init__(self, which, zero=()):
        self.which = which
        self.zero = tuple(zero)
        self.name = f"C12:sensor:{which}" + ("" if not zero else ":zero_" + "_".join(zero))

    def build(self):
        e = sim_eqs()
        x = ca.SX.sym("x", 6)
        if self.which == "accel":
            g = ca.SX.sym("g")
            return ca.Function("sa", [x, g], [e["measure_accel"](x, g, 0, ca.SX.zeros(3))])
        if self.which == "gyro":
            w = ca.SX.sym("w", 3)
            return ca.Function("sg", [x, w], [e["measure_gyro"](x, w, 0, ca.SX.zeros(3))])
        s, d, i = ca.SX.sym("s"), ca.SX.sym("d"), ca.SX.sym("i")
        dd = 0 if "decl" in self.zero else d
        ii = 0 if "incl" in self.zero else i
        return ca.Function("sm", [x, s, d, i], [e["measure_mag"](x, s, dd, ii, 0, ca.SX.zeros(3))])

    def make_ctx(self):
        ctx = Ctx()
        r = [Val.var(f"r{i}") for i in range(3)]
        b = [Val.var(f"b{i}") for i in range(3)]
        self.lats = []
        aux = dict(R=mrp_R(r), b=b)
        if self.which == "accel":
            ctx.aux = aux
            return ctx, [r + b, [Val.var("g")]]
        if self.which == "gyro":
            ctx.aux = aux
            return ctx, [r + b, [Val.var(f"w{i}") for i in range(3)]]
        Ld = Lattice(ctx, "decl", "half", positive=True)
        Li = Lattice(ctx, "incl", "half", positive=True)
        self.lats = [Ld, Li]
        lim = Val(Fraction(1, 1000))
        ctx.assume(V.ge(Ld.th * Ld.th, lim), V.ge(Li.th * Li.th, lim))
        sd, cd = (Val(0), Val(1)) if "decl" in self.zero else (Ld.s, Ld.c)
        si, ci = (Val(0), Val(1)) if "incl" in self.zero else (Li.s, Li.c)
        aux.update(sd=sd, cd=cd, si=si, ci=ci)
        ctx.aux = aux
        return ctx, [r + b, [Val.var("s")], [Ld.th], [Li.th]]

    def env_fix(self, env):
        for L in self.lats:
            L.concretize(env)

    def claims(self, outs, ins, aux):
        y = [outs[0][i][0] for i in range(3)]
        Rt = V.mat_T(aux["R"])
        cl = []
        if self.which == "accel":
            g = ins[1][0]
            ref = V.mat_vec(Rt, [0, 0, -g])
            cl.append(Claim("norm", V.dot(y, y), g * g))
        elif self.which == "gyro":
            ref = [ins[1][i] + aux["b"][i] for i in range(3)]
        else:
            s = ins[1][0]
            # Rz(decl) Ry(-incl) e1 = (cd ci, sd ci, si)
            Bn = [aux["cd"] * aux["ci"] * s, aux["sd"] * aux["ci"] * s, aux["si"] * s]
            ref = V.mat_vec(Rt, Bn)
            cl.append(Claim("norm", V.dot(y, y), s * s))
        cl += [Claim(f"value[{i}]", y[i], ref[i]) for i in range(3)]
        return cl


class TruthFixedPoint(Harness):
    """estimator correction evaluated at the truth with the noise-free measurement"""
    timeout_ms = 60000
    max_cells = 64

    def __init__(self, which):
        self.which = which
        self.name = f"C12:truth_fixed_point:{which}"

    def build(self):
        e = mrp_eqs()
        x = ca.SX.sym("x", 6)
        W = ca.SX.sym("W", ca.Sparsity.lower(6))
        y = ca.SX.sym("y", 3)
        if self.which == "accel":
            f = e["correct_accel"]
            if [f.name_in(i) for i in range(f.n_in())] != ["x", "W", "y_b", "g", "omega_b", "std_accel", "std_accel_omega", "beta_accel_c"]:
                raise StructureChanged("correct_accel signature changed")
            g = ca.SX.sym("g")
            o = f(x, W, y, g, ca.SX.zeros(3), 0.035, 0, 9.2)
            return ca.Function("tfa", [x, W, y, g], [o[3], o[5]])
        f = e["correct_mag"]
        if [f.name_in(i) for i in range(f.n_in())] != ["x", "W", "y_b", "decl", "std_mag", "beta_mag_c"]:
            raise StructureChanged("correct_mag signature changed")
        d = ca.SX.sym("d")
        o = f(x, W, y, d, 0.0025, 6.6)
        return ca.Function("tfm", [x, W, y, d], [o[3]])

    def make_ctx(self):
        ctx = Ctx()
        ctx.light_feasibility = True
        r = [Val.var(f"r{i}") for i in range(3)]
        b = [Val.var(f"b{i}") for i in range(3)]
        Wv = [Val.var(f"W{i}") for i in range(21)]
        R = mrp_R(r)
        Rt = V.mat_T(R)
        self.lats = []
        if self.which == "accel":
            g = Val.var("g")
            ctx.assume(V.ge(g, Val(Fraction(19, 2))), V.le(g, Val(Fraction(101, 10))))
            y = V.mat_vec(Rt, [0, 0, -g])
            ctx.aux = {}
            return ctx, [r + b, Wv, y, [g]]
        Ld = Lattice(ctx, "decl", "half", positive=False)
        Li = Lattice(ctx, "incl", "half", positive=False)
        self.lats = [Ld, Li]
        ctx.assume(Li.c.num_term() > 0, Li.u.num_term() < 1, Li.u.num_term() > -1)  # |incl| < pi/2: horizontal field component
        s = Val.var("s")
        ctx.assume(s.num_term() > 0)
        Bn = [Ld.c * Li.c * s, Ld.s * Li.c * s, Li.s * s]
        y = V.mat_vec(Rt, Bn)
        ctx.aux = {}
        return ctx, [r + b, Wv, y, [Ld.th]]

    def env_fix(self, env):
        for L in self.lats:
            L.concretize(env)

    def claims(self, outs, ins, aux):
        if self.which == "accel":
            return [Claim(f"innovation[{i}]", outs[0][i][0], 0) for i in range(2)] + [Claim("accepted", outs[1][0][0], 0)]
        return [Claim("innovation", outs[0][0][0], 0)]


class SensorMagCut(Harness):
    """measure_mag for arbitrary declination and inclination: y = M(r)^T Rz(decl) Ry(-incl) (s e1), norm s.
    Modular: the two SO3Dcm.exp calls are cut - the harness checks that their arguments are decl*e3 and -incl*e2 and binds
    the results to the rotations about those axes (C02's theorem M(exp x) = expm(x^), re-discharged for SO3Dcm)."""
    timeout_ms = 60000
    max_cells = 16
    name = "C12:sensor:mag:any_decl_incl"

    def build(self):
        import cyecca.lie.group_so3 as g
        import cyecca.estimate.attitude.algorithms.sim as sm
        from ..stubs import FunctionCapture
        rec = {}
        E = [ca.SX.sym("cutE0", 3, 3), ca.SX.sym("cutE1", 3, 3)]
        o_exp = g.SO3DcmLieGroup.exp

        def exp(self_, arg):
            # the call is identified by the angle its argument depends on, not by call order
            dep = {v.name() for v in ca.symvar(ca.SX(arg.param))}
            k = 0 if dep == {"mag_decl"} else (1 if dep == {"mag_incl"} else None)
            if k is None or k in rec:
                raise StructureChanged(f"measure_mag: unexpected SO3Dcm.exp call (argument depends on {sorted(dep)})")
            rec[k] = ca.SX(arg.param)
            return g.SO3Dcm.from_Matrix(E[k])
        g.SO3DcmLieGroup.exp = exp
        try:
            with FunctionCapture() as fc:
                sm.measure_mag()
        finally:
            g.SO3DcmLieGroup.exp = o_exp
        if len(rec) != 2:
            raise StructureChanged(f"measure_mag: {len(rec)} SO3Dcm.exp calls (expected the declination and the inclination rotation)")
        ins, outs, names = fc.last("measure_mag")
        if (names or [])[:4] != ["x", "mag_str", "mag_decl", "mag_incl"]:
            raise StructureChanged(f"measure_mag signature changed: {names}")
        x, s_, d, i = ins[:4]
        y = ca.substitute(outs[0], ca.vertcat(*ins[4:]), ca.SX.zeros(sum(v.numel() for v in ins[4:]), 1))  # noise off
        return ca.Function("mag_obs", [x, s_, d, i, ca.vec(E[0]), ca.vec(E[1])], [y, rec[0], rec[1]])

    def build_real(self):
        e = sim_eqs()
        x = ca.SX.sym("x", 6)
        s, d, i = ca.SX.sym("s"), ca.SX.sym("d"), ca.SX.sym("i")
        e0, e1 = ca.SX.sym("e0", 9), ca.SX.sym("e1", 9)
        z3_ = ca.SX.zeros(3)
        return ca.Function("mag_real", [x, s, d, i, e0, e1],
                           [e["measure_mag"](x, s, d, i, 0, z3_), ca.vertcat(0, 0, d), ca.vertcat(0, -i, 0)])

    def make_ctx(self):
        from ..oracles import weier
        ctx = Ctx()
        r = [Val.var(f"r{i}") for i in range(3)]
        b = [Val.var(f"b{i}") for i in range(3)]
        s = Val.var("s")
        d, i = Val.var("decl"), Val.var("incl")
        sd, cd = weier(Val.var("decl_u"))
        si, ci = weier(Val.var("incl_u"))
        E0 = rotz(sd, cd)
        E1 = roty(-si, ci)  # rotation by -incl about e2
        cm = lambda M: [M[a][b_] if isinstance(M[a][b_], Val) else Val(M[a][b_]) for b_ in range(3) for a in range(3)]
        ctx.aux = dict(R=mrp_R(r), sd=sd, cd=cd, si=si, ci=ci, d=d, i=i, s=s)
        return ctx, [r + b, [s], [d], [i], cm(E0), cm(E1)]

    def env_fix(self, env):
        if "decl_u" in env:
            env["decl"] = 2 * mp.atan(env["decl_u"])
        if "incl_u" in env:
            env["incl"] = 2 * mp.atan(env["incl_u"])

    def claims(self, outs, ins, aux):
        y = [outs[0][k][0] for k in range(3)]
        v0 = [outs[1][k][0] for k in range(3)]
        v1 = [outs[2][k][0] for k in range(3)]
        s = aux["s"]
        Bn = [aux["cd"] * aux["ci"] * s, aux["sd"] * aux["ci"] * s, aux["si"] * s]  # Rz(decl) Ry(-incl) (s e1)
        ref = V.mat_vec(V.mat_T(aux["R"]), Bn)
        cl = [Claim("norm", V.dot(y, y), s * s)]
        cl += [Claim(f"value[{k}]", y[k], ref[k]) for k in range(3)]
        want0 = [Val(0), Val(0), aux["d"]]
        want1 = [Val(0), -aux["i"], Val(0)]
        cl += [Claim(f"declination_rotation_argument[{k}]", v0[k], want0[k]) for k in range(3)]
        cl += [Claim(f"inclination_rotation_argument[{k}]", v1[k], want1[k]) for k in range(3)]
        return cl


class RestoringDirection(Harness):
    """L5: the accelerometer innovation never points away from the measured gravity direction: with y_n = C_nb (-y_b)
    (measurement rotated by the ESTIMATED attitude; the code's own vector, observed at its cross product and proved equal
    to M(r)(-y)) the innovation is a non-negative multiple of y_n x e3, for every estimator attitude and every
    measurement - also for tilt errors beyond 90 degrees (estimator started at zero)."""
    timeout_ms = 60000
    max_cells = 64
    name = "C12:accel_innovation_restoring"

    def build(self):
        import casadi
        import cyecca.estimate.attitude.algorithms.mrp as m
        rec = []
        o_cross = casadi.cross

        def cross(a, b, *k):
            rec.append((ca.SX(a), ca.SX(b)))
            return o_cross(a, b, *k)
        casadi.cross = cross
        try:
            f = m.correct_accel()
        finally:
            casadi.cross = o_cross
        if [f.name_in(i) for i in range(f.n_in())] != ["x", "W", "y_b", "g", "omega_b", "std_accel", "std_accel_omega", "beta_accel_c"]:
            raise StructureChanged("correct_accel signature changed")
        cand = [a for (a, b_) in rec if b_.is_constant() and [float(v) for v in ca.DM(b_).full().ravel()] == [0.0, 0.0, 1.0]]
        if len(cand) != 1:
            raise StructureChanged(f"correct_accel: expected one cross product with the vertical axis, found {len(cand)}")
        yn = cand[0]
        sv = {v.name(): v for v in ca.symvar(yn)}
        try:
            y = ca.vertcat(*[sv[f"y_b_{i}"] for i in range(3)])
        except KeyError as e:
            raise StructureChanged(f"correct_accel: measurement symbol {e} not found in the rotated measurement")
        o = f(m.x, m.W, y, m.g, ca.SX.zeros(3), 0.035, 0, 9.2)
        return ca.Function("restoring", [m.x, y, m.g, m.W], [o[3], yn])

    def make_ctx(self):
        ctx = Ctx()
        ctx.light_feasibility = True
        ctx.sign_facts = True
        r = [Val.var(f"r{i}") for i in range(3)]
        b = [Val.var(f"b{i}") for i in range(3)]
        y = [Val.var(f"y{i}") for i in range(3)]
        g = Val.var("g")
        ctx.assume(V.gt(V.dot(y, y), Val(0)))
        yn = V.mat_vec(mrp_R(r), [-y[0], -y[1], -y[2]])
        ctx.aux = dict(yn=yn)
        return ctx, [r + b, y, [g], [Val.var(f"W{i}") for i in range(21)]]

    def claims(self, outs, ins, aux):
        yn = [outs[1][k][0] for k in range(3)]
        r0, r1 = outs[0][0][0], outs[0][1][0]
        # y_n x e3 = (y_n[1], -y_n[0], 0)
        cl = [Claim("innovation_x_along_cross", r0 * yn[1], 0, "ge"),
              Claim("innovation_y_along_cross", r1 * (-yn[0]), 0, "ge"),
              Claim("innovation_parallel_to_cross", r0 * (-yn[0]) - r1 * yn[1], 0)]
        # the direction is the ratio of the (scale-free) components of the measured gravity in the estimated frame
        cl += [Claim(f"rotated_measurement_direction[{k}]", yn[k] * aux["yn"][2], yn[2] * aux["yn"][k]) for k in range(2)]
        cl.append(Claim("rotated_measurement_same_side", yn[0] * aux["yn"][0] + yn[1] * aux["yn"][1] + yn[2] * aux["yn"][2], 0, "gt"))
        return cl


def job_gain_applied(which):
    """L3: an accepted accelerometer / magnetometer correction applies the gain K of sqrt_correct to EVERY component of
    the state:  x+ = exp(K r) * x  on SO3Mrp x R^3 (QF_UF congruence of the real function's output with the group update
    built from the recorded gain and the function's own innovation output).  Necessary for 'all three gyro-bias
    components approach the true bias': a component that the correction never touches keeps its initial error."""
    import time
    import random
    import cyecca.util as util
    from ..ir import IR
    from ..uf import UFDomain, uf_outputs, uf_equiv
    from ..harness import _casadi_eval, _same
    t0 = time.time()
    name = f"C12:correction_applies_gain:{which}"
    stats = dict(name=name, cells=1, queries=0, solver_time=0.0, functions=[], resolutions={})
    rec = []
    orig = util.sqrt_correct

    def spy(*a, **k):
        r = orig(*a, **k)
        rec.append(r)
        return r
    util.sqrt_correct = spy
    try:
        import cyecca.estimate.attitude.algorithms.mrp as m
        f = m.correct_accel() if which == "accel" else m.correct_mag()
    except Exception as e:
        import traceback
        return dict(records=[dict(label="build", status="crash", harness=name, detail=f"{type(e).__name__}: {e}",
                                  trace=traceback.format_exc()[-1500:])], stats=stats)
    finally:
        util.sqrt_correct = orig
    recs = []
    if len(rec) != 1:
        return dict(records=[dict(label="sqrt_correct_called_once", status="refuted", harness=name,
                                  replay=dict(confirmed=True, note=f"sqrt_correct called {len(rec)} times"))], stats=stats)
    K = rec[0][1]
    sym = {"x": m.x, "W": m.W, "g": m.g, "omega_b": m.omega_m, "std_accel": m.std_accel, "std_accel_omega": m.std_accel_omega,
           "beta_accel_c": m.beta_accel_c, "decl": m.mag_decl, "std_mag": m.std_mag, "beta_mag_c": m.beta_mag_c}
    args = []
    for i in range(f.n_in()):
        n = f.name_in(i)
        if n == "y_b":
            args.append(ca.SX.sym("y_b", 3))
        elif n in sym:
            args.append(sym[n])
        else:
            return dict(records=[dict(label="build", status="crash", harness=name, detail=f"unknown input {n}")], stats=stats)
    known = {v.name() for a in args for v in ca.symvar(a)}
    if not {v.name() for v in ca.symvar(K)} <= known:
        return dict(records=[dict(label="build", status="crash", harness=name, detail="gain depends on symbols that are not inputs")],
                    stats=stats)
    o = f(*args)
    names = [f.name_out(i) for i in range(f.n_out())]
    x_out, r_out, code = o[0], o[names.index("r_" + which)], o[names.index("error_code")]
    upd = m.G.product(m.G.exp(m.G.algebra.elem(ca.mtimes(K, r_out))), m.G.elem(m.x)).param
    want = ca.if_else(code == 0, upd, m.x)
    gfun = ca.Function("gain_applied", args, [x_out, want, code])
    ir = IR(gfun)
    stats["functions"].append(dict(function=f.name(), instructions=ir.n_instr))
    D = UFDomain()
    outs = uf_outputs(ir, D)
    for (k, r), lab in zip(uf_equiv(outs[0], outs[1], D), [f"x+=exp(K r)*x[{i}]" for i in range(6)]):
        st = {"unsat": "proved", "sat": "refuted", "unknown": "unknown"}[r]
        rc = dict(label=lab, harness=name, cell="uf", t=0.0, status=st)
        if st == "refuted":
            # replay: a concrete accepted correction on which the real output differs from the group update
            rng = random.Random(k)
            diff = None
            for _ in range(300):
                pt = []
                for i in range(ir.n_in):
                    n = f.name_in(i)
                    if n == "x":
                        pt.append([rng.uniform(-0.3, 0.3) for _ in range(6)])
                    elif n == "W":
                        Wm = [[(0.05 + rng.uniform(0, 0.02) if a == b else rng.uniform(-0.005, 0.005)) for b in range(6)] for a in range(6)]
                        pt.append([Wm[a][b] for b in range(6) for a in range(b, 6)])
                    elif n == "y_b":
                        v = [rng.uniform(-1, 1), rng.uniform(-1, 1), rng.uniform(-1, 1) - 9.0] if which == "accel" else \
                            [rng.uniform(0.3, 1), rng.uniform(-0.5, 0.5), rng.uniform(-0.3, 0.3)]
                        if which == "accel":
                            nv = sum(t * t for t in v) ** 0.5
                            v = [t * 9.8 / nv for t in v]
                        pt.append(v)
                    elif n == "g":
                        pt.append([9.8])
                    elif n == "omega_b":
                        pt.append([rng.uniform(-1, 1) for _ in range(3)])
                    elif n in ("std_accel", "std_mag"):
                        pt.append([0.035 if which == "accel" else 0.0025])
                    elif n == "std_accel_omega":
                        pt.append([0.0])
                    elif n in ("beta_accel_c", "beta_mag_c"):
                        pt.append([9.2])
                    else:
                        pt.append([rng.uniform(-0.3, 0.3) for _ in range(ir.in_nnz[i])])
                ov = _casadi_eval(gfun, pt)
                if ov[2][0][0] == 0 and not _same(ov[0][k][0], ov[1][k][0], 1e-12):
                    diff = dict(inputs=pt, real_output=ov[0][k][0], group_update=ov[1][k][0], error_code=ov[2][0][0],
                                input_names=[f.name_in(i) for i in range(f.n_in())])
                    break
            rc["replay"] = dict(confirmed=diff is not None, **(diff or {"reason": "not congruent but numerically equal"}))
            if diff is None:
                rc["status"] = "spurious"
        recs.append(rc)
        stats["queries"] += 1
    stats["wall"] = time.time() - t0
    return dict(records=recs, stats=stats)


def all_harnesses(tier):
    # the magnetometer model with non-zero declination/inclination and the magnetometer fixed point need the solver to
    # simplify C_nb C_nb^T on the MRP chart inside an atan2 resolution; those obligations came back with models that
    # do not replay (inconclusive) and are not part of the claim
    return [SensorModels("accel"), SensorModels("gyro"), SensorModels("mag", ("decl", "incl")), TruthFixedPoint("accel"),
            SensorMagCut(), RestoringDirection()]


def lemma_harnesses():
    """M(exp x) = expm(x^) for SO3Dcm (owned by C02): the cut of measure_mag rests on it"""
    from . import C02
    return [C02.ExpStub("SO3Dcm"), C02.ExpZero("SO3Dcm")]


def get_harness(name, tier="quick"):
    for h in all_harnesses(tier) + lemma_harnesses():
        if h.name == name:
            return h
    raise KeyError(name)


def jobs(tier, seed):
    js = harness_jobs(__name__, all_harnesses(tier) + lemma_harnesses(), seed, tier)
    js.append(("C12:correction_applies_gain:accel", job_gain_applied, ("accel",)))
    js.append(("C12:correction_applies_gain:mag", job_gain_applied, ("mag",)))
    # rate settings: a due correction is never skipped by the estimator node (CrossHair on the real node, <= 3 callbacks)
    from . import C20
    js.append(("C12:estimator_due", C20.job, ("estimator_due", tier, seed, "C12")))
    return js
