"""C03 - log inverts exp and returns the principal, representation-independent rotation."""
from __future__ import annotations
import casadi as ca
import mpmath as mp
import z3

from ..harness import Harness, Claim, HarnessError, StructureChanged
from ..val import Val
from .. import val as V
from ..enc import Ctx
from ..stubs import SeriesStubs
from ..lieh import (groups, family, so3_of, algebra_input, algebra_of, n_alg, MatrixCut, group_angle_input,
                    group_input)
from ..runner import run_harness_job, harness_jobs
from .C02 import entry_claims

LEVEL = "proof"
TRUSTED = ["CasADi SX construction + instruction API", "IR->SMT encoder (validated against CasADi's VM on every run)",
           "angle lattice (Weierstrass) + inverse-trig facts: acos(cos y)=y on [0,pi], atan(tan y)=y on (-pi/2,pi/2)",
           "meaning of the series keys (C06 lemmas)", "z3 5.1.0 nlsat"]
ASSUMPTIONS = ["real arithmetic (no IEEE rounding)", "inputs are angle-parametrised: X = rep(phi, n(a,b)), phi in (0, pi) "
               "(shadow MRPs: (pi, 2pi)); zero rotation by exact constant evaluation",
               "denominators met on the path are assumed non-zero: this is the stated margin at the pi singularity "
               "(DCM log: sin(phi) != 0) and SE(2) theta not a non-zero multiple of 2pi",
               "Euler log is checked by delegation (it must call the DCM log on the DCM conversion; conversions are C07)"]
BOUNDS = {"phi": "(0, pi) symbolic, all axes except (0,0,-1); translations free"}
EXPLANATION = ("log/exp round trips and the principal-value claim log(X) = phi*n are rational identities once acos/atan "
               "are resolved against the input's own angle; each entry is one z3 query")

SO3R = ["SO3Quat", "SO3Mrp", "SO3Dcm"]
VARIANTS = {"Quat": ["+", "-"], "Mrp": ["inner", "shadow"], "Dcm": ["+", "-"]}
ANGLE_GROUPS = ["SO3Quat", "SO3Mrp", "SO3Dcm", "SE3Quat", "SE3Mrp", "SE23Quat", "SE23Mrp"]
ALL = ["SO2", "SE2", "R2", "R3"] + ANGLE_GROUPS


class Stubbed(Harness):
    """common: real code under series stubs, coefficient symbols bound to their exact meaning"""
    timeout_ms = 60000
    n_in = ()

    def _real(self, *sx):
        raise NotImplementedError

    def _inputs(self, ctx):
        raise NotImplementedError

    def build(self):
        self.sx = [ca.SX.sym(f"in{k}", n) for k, n in enumerate(self.n_in)]
        self.extra_sx = []  # symbols introduced by cuts inside _real
        with SeriesStubs() as st:
            outs = self._real(*self.sx)
        self.st = st
        self.sx = self.sx + self.extra_sx
        ins = list(self.sx) + ([ca.vertcat(*st.coef_syms())] if st.calls else [])
        return ca.Function(self.name.replace(":", "_").replace("+", "p").replace("-", "m"), ins, [ca.SX(o) for o in outs])

    def build_real(self):
        sx = [ca.SX.sym(f"in{k}", n) for k, n in enumerate(self.n_in)]
        outs = self._real_nocut(*sx) if hasattr(self, "_real_nocut") else self._real(*sx)
        return ca.Function("real", sx, [ca.SX(o) for o in outs])

    def make_ctx(self):
        ctx = Ctx()
        in_vals = self._inputs(ctx)
        coefs = self.st.bind(ctx, in_vals, self.sx)
        return ctx, in_vals + ([coefs] if coefs else [])

    def env_fix(self, env):
        for L in getattr(self, "lats", []):
            L.concretize(env)
        if "s" in env and "c" in env and "th" in env and not getattr(self, "lats", []):
            env["s"] = mp.sin(env["th"])
            env["c"] = mp.cos(env["th"])


def exp_matrix(G, alg, xx, gname):
    """M(exp(x)) with the from_Matrix cut for SE_2(3) (see C02)"""
    if family(gname) == "SE23":
        with MatrixCut(("SE23",)) as mc:
            X = alg.elem(xx).exp(G)
        if len(mc.calls) != 1 or not ca.is_equal(X.param, mc.calls[0][2], 2):
            raise StructureChanged("exp does not end in a single from_Matrix call")
        return mc.calls[0][1]
    return alg.elem(xx).exp(G).to_Matrix()


class LogExp(Stubbed):
    """log(exp(x)) = x for rotation angle in (0, pi).
    SE_2(3): exp ends in SO3.from_Matrix(A); the harness cuts there, checks A = Rodrigues(theta, n) and
    binds the extracted rotation to the element the C01/C07 lemmas guarantee (unit quaternion of either
    sign / inner MRP with matrix A)."""

    def __init__(self, gname, variant="+"):
        self.gname = gname
        self.fam = family(gname)
        self.variant = variant
        self.name = f"C03:logexp:{gname}" + ("" if variant == "+" else ":negq")
        self.n_in = (n_alg(self.fam),)

    def _real(self, x):
        G = groups()[self.gname]
        alg = algebra_of(self.fam)
        if self.fam == "SE23":
            rep = so3_of(self.gname)[3:]
            with MatrixCut((rep,)) as mc:
                X = alg.elem(x).exp(G)
            if len(mc.calls) != 1:
                raise StructureChanged("SE_2(3) exp: expected one SO3.from_Matrix call")
            _, A, P = mc.calls[0]
            self.extra_sx = [P]
            return [X.log().param, A]
        if self.gname == "SO3Dcm":
            # DCM log goes through the quaternion extraction: cut there (see class docstring)
            X = alg.elem(x).exp(G)
            with MatrixCut(("Quat",)) as mc:
                lg = X.log()
            if len(mc.calls) != 1:
                raise StructureChanged("SO3Dcm.log: expected one SO3Quat.from_Matrix call")
            _, A, P = mc.calls[0]
            self.extra_sx = [P]
            return [lg.param, A]
        return [alg.elem(x).exp(G).log().param]

    def _real_nocut(self, x):
        G = groups()[self.gname]
        alg = algebra_of(self.fam)
        return [alg.elem(x).exp(G).log().param]

    def _inputs(self, ctx):
        xin, aux = algebra_input(ctx, self.fam, below_pi=True)
        L = aux.pop("_lat", None)
        self.lats = [L] if L is not None else []
        if self.fam in ("SO2", "SE2"):
            ctx.assume(aux["th"].num_term() != 0)
        ctx.aux = aux
        if self.fam == "SE23" or self.gname == "SO3Dcm":
            n = aux["n"]
            if so3_of(self.gname) in ("SO3Quat", "SO3Dcm"):
                sg = 1 if self.variant == "+" else -1
                P = [sg * L.c2, sg * L.s2 * n[0], sg * L.s2 * n[1], sg * L.s2 * n[2]]
                if sg == -1:
                    from ..enc import Angle
                    pi = ctx.pi()
                    comp = pi - L.th / 2
                    ctx.angles.append(Angle(comp, sin=L.s2, cos=-L.c2, flags={"acos"}, name="pi-th/2"))
                    ctx.roots.append(comp)
            else:
                P = [L.tan4 * n[0], L.tan4 * n[1], L.tan4 * n[2]]
            return [xin, P]
        return [xin]

    def claims(self, outs, ins, aux):
        y = outs[0]
        cl = []
        if not (self.fam == "SE23" and self.variant != "+"):
            cl = [Claim(f"logexp[{i}]", y[i][0], ins[0][i]) for i in range(len(y))]
        else:
            # antipodal quaternion from the extraction: log must still return x (principal value)
            cl = [Claim(f"logexp[{i}]", y[i][0], ins[0][i]) for i in range(len(y))]
        if len(outs) > 1:
            from ..oracles import rot_axis_angle
            cl += entry_claims("cut_arg", outs[1], rot_axis_angle(aux["n"], aux["s"], aux["c"]))
        return cl


def log_oracle(fam, aux):
    """closed form of log for the rotation (th, n) and translations p (, v): (J_l^-1 p, [J_l^-1 v,] th n)"""
    th, n = aux["th"], aux["n"]
    w = [th * n[0], th * n[1], th * n[2]]
    if fam == "SO3":
        return w
    N = V.hat(n)
    N2 = V.mat_mul(N, N)
    # J_l^-1 = I - th/2 N + (1 - (th/2) cot(th/2)) N^2
    k = 1 - (th / 2) * aux["c2"] / aux["s2"]
    Ji = V.mat_add(V.mat_eye(3), V.mat_add(V.mat_scale(-th / 2, N), V.mat_scale(k, N2)))
    u = V.mat_vec(Ji, aux["p"])
    if fam == "SE3":
        return u + w
    a = V.mat_vec(Ji, aux["v"])
    return u + a + w


class LogPrincipal(Stubbed):
    """stage A: log X equals the closed-form principal logarithm: rotation part phi*n (smallest angle,
    independent of representation and quaternion sign), translation parts J_l^-1 p."""

    def __init__(self, gname, variant):
        self.gname = gname
        self.fam = family(gname)
        self.variant = variant
        self.name = f"C03:logprincipal:{gname}:{variant}"
        self.n_in = (groups()[gname].n_param,)

    def _real(self, x):
        G = groups()[self.gname]
        if self.gname == "SO3Dcm":
            with MatrixCut(("Quat",)) as mc:
                lg = G.elem(x).log()
            if len(mc.calls) != 1:
                raise StructureChanged("SO3Dcm.log: expected one SO3Quat.from_Matrix call")
            _, A, P = mc.calls[0]
            self.extra_sx = [P]
            return [lg.param, A]
        return [G.elem(x).log().param]

    def _real_nocut(self, x):
        G = groups()[self.gname]
        return [G.elem(x).log().param]

    def _inputs(self, ctx):
        g = group_angle_input(ctx, self.gname, "+" if self.gname == "SO3Dcm" else self.variant)
        self.lats = g.lats
        ctx.aux = g.aux
        if self.gname == "SO3Dcm":
            # the extracted quaternion is a unit quaternion with matrix A (C07 leaf lemma): +-(c2, s2 n)
            a = g.aux
            sg = 1 if self.variant == "+" else -1
            n = a["n"]
            P = [sg * a["c2"], sg * a["s2"] * n[0], sg * a["s2"] * n[1], sg * a["s2"] * n[2]]
            return [g.params, P]
        return [g.params]

    def claims(self, outs, ins, aux):
        lg = outs[0]
        ref = log_oracle(self.fam, aux)
        cl = [Claim(f"principal[{i}]", lg[i][0], ref[i]) for i in range(len(ref))]
        if len(outs) > 1:
            cl += entry_claims("cut_arg", outs[1], aux["R"])
        return cl


class ExpLog(Stubbed):
    """stage B: the real exp applied to the value stage A proved log X to be gives back X (as matrices)"""

    def __init__(self, gname, variant):
        self.gname = gname
        self.fam = family(gname)
        self.variant = variant
        self.name = f"C03:explog:{gname}:{variant}"
        self.n_in = (groups()[gname].n_param, n_alg(self.fam))

    def _real(self, x, w):
        G = groups()[self.gname]
        alg = algebra_of(self.fam)
        return [G.elem(x).to_Matrix(), exp_matrix(G, alg, w, self.gname)]

    def _real_nocut(self, x, w):
        G = groups()[self.gname]
        alg = algebra_of(self.fam)
        return [G.elem(x).to_Matrix(), alg.elem(w).exp(G).to_Matrix()]

    def _inputs(self, ctx):
        g = group_angle_input(ctx, self.gname, self.variant)
        self.lats = g.lats
        ctx.aux = g.aux
        return [g.params, log_oracle(self.fam, g.aux)]

    def claims(self, outs, ins, aux):
        return entry_claims("explog", outs[1], outs[0])


class ExpLogPlanar(Stubbed):
    """SO(2), SE(2), R^n: M(exp(log X)) = M(X)"""

    def __init__(self, gname):
        self.gname = gname
        self.fam = family(gname)
        self.name = f"C03:explog:{gname}"
        self.n_in = (groups()[gname].n_param,)

    def _real(self, x):
        G = groups()[self.gname]
        X = G.elem(x)
        return [X.to_Matrix(), X.log().exp(G).to_Matrix()]

    def _inputs(self, ctx):
        # group parameters coincide with algebra parameters for these groups (angle free, formal sin/cos)
        xin, aux = algebra_input(ctx, self.fam)
        if self.fam in ("SO2", "SE2"):
            ctx.assume(aux["th"].num_term() != 0)
        ctx.aux = aux
        return [xin]

    def claims(self, outs, ins, aux):
        return entry_claims("explog", outs[1], outs[0])


class LogZero(Harness):
    """log(identity) = 0 and M(exp(log e)) = I, exact constant evaluation"""
    n_validate = 1

    def __init__(self, gname):
        self.gname = gname
        self.name = f"C03:logzero:{gname}"

    def build(self):
        G = groups()[self.gname]
        d = ca.SX.sym("dummy")
        e = G.identity()
        lg = e.log()
        return ca.Function("logzero", [d], [ca.SX(lg.param) + 0 * d, ca.SX(lg.exp(G).to_Matrix())])

    def make_ctx(self):
        ctx = Ctx()
        ctx.aux = {}
        return ctx, [[Val.var("dummy")]]

    def claims(self, outs, ins, aux):
        cl = [Claim(f"log_e[{i}]", outs[0][i][0], 0) for i in range(len(outs[0]))]
        return cl + entry_claims("exp_log_e", outs[1], V.mat_eye(len(outs[1])))


class EulerDelegation(Harness):
    """Euler log must be the DCM log of SO3Dcm.from_Euler(X) (conversions: C07; DCM log: above)"""
    n_validate = 1

    def __init__(self):
        self.name = "C03:euler_delegation"

    def build(self):
        import cyecca.lie.group_so3 as g
        L = groups()
        E = L["SO3EulerB321"]
        x = ca.SX.sym("x", 3)
        rec = []
        o1, o2 = g.SO3DcmLieGroup.from_Euler, g.SO3DcmLieGroup.log
        sentinel = g.so3.elem(ca.SX.sym("sentinel", 3))

        def fake_from(self_, arg):
            D = self_.elem(ca.SX.sym("D", 9))
            rec.append(("from_Euler", arg, D))
            return D

        def fake_log(self_, arg):
            rec.append(("log", arg))
            return sentinel
        g.SO3DcmLieGroup.from_Euler = fake_from
        g.SO3DcmLieGroup.log = fake_log
        try:
            lg = E.elem(x).log()
        finally:
            g.SO3DcmLieGroup.from_Euler, g.SO3DcmLieGroup.log = o1, o2
        ok = (len(rec) == 2 and rec[0][0] == "from_Euler" and ca.is_equal(rec[0][1].param, x, 2)
              and rec[1][0] == "log" and rec[1][1] is rec[0][2] and lg is sentinel)
        if not ok:
            raise StructureChanged("Euler log is not SO3Dcm.log(SO3Dcm.from_Euler(X))")
        d = ca.SX.sym("d")
        return ca.Function("euler_log", [d], [d * 1])

    def make_ctx(self):
        ctx = Ctx()
        ctx.aux = {}
        return ctx, [[Val.var("d")]]

    def claims(self, outs, ins, aux):
        return [Claim("delegates", outs[0][0][0], ins[0][0])]


def all_harnesses(tier):
    hs = []
    for g in ALL:
        hs.append(LogExp(g))
        hs.append(LogZero(g))
    hs.append(LogExp("SE23Quat", "-"))
    hs.append(LogExp("SO3Dcm", "-"))
    for g in ("SO2", "SE2", "R2", "R3"):
        hs.append(ExpLogPlanar(g))
    for g in ANGLE_GROUPS:
        rep = so3_of(g)[3:]
        for v in VARIANTS[rep]:
            hs.append(LogPrincipal(g, v))
            if not (rep == "Dcm" and v == "-"):
                hs.append(ExpLog(g, v))
    hs.append(LogZero("SO3EulerB321"))
    hs.append(EulerDelegation())
    return hs


def lemma_harnesses():
    """the from_Matrix / from_Quat leaf lemmas this property's modular (cut) obligations rest on (owned by C07);
    they are re-discharged here so that this check alone notices a broken leaf"""
    from . import C07
    return [C07.FromMatrixLeaf(1), C07.FromMatrixLeaf(-1), C07.EulerLeaf(), C07.Direct("Mrp", "Quat"),
            C07.Direct("Mrp", "Quat", -1), C07.Shadow()]


def get_harness(name, tier="quick"):
    for h in all_harnesses(tier) + lemma_harnesses():
        if h.name == name:
            return h
    raise KeyError(name)


def jobs(tier, seed):
    return harness_jobs(__name__, all_harnesses(tier) + lemma_harnesses(), seed, tier)
