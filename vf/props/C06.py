"""C06 - small-angle handling is singularity-free, accurate and differentiable.

Series lemmas (DESIGN.md §1.5): every entry of cyecca.symbolic.SERIES / SQUARED_SERIES is verified in
isolation from its own instruction list:
  S1  closed branch  == the exact function the key denotes (formal identity in x, sin x, cos x);
  S2  Taylor branch  within DELTA of that function on 0 < |arg| < eps, with sin/cos/atan replaced by
      alternating-series enclosures (consecutive Maclaurin partial sums; trusted for |x| <= 1);
      at arg = 0 the value is within DELTA of the limit;  (=> S3: no jump > DELTA at the switch)
  S5  AD: d/darg of the function is defined (no zero denominator / negative sqrt on the selected
      branch) for all |x| <= 1 including 0.
Consumers: automatic derivatives of exp/log/Jacobians/conversions are defined at zero rotation (exact
evaluation) and everywhere in the Taylor cell around it."""
from __future__ import annotations
import math
from fractions import Fraction
import casadi as ca
import mpmath as mp
import z3

from ..harness import Harness, Claim, HarnessError
from ..val import Val
from .. import val as V
from ..enc import Ctx, Angle
from ..oracles import series_oracle, SERIES_KEYS, SERIES_LIMIT, Lattice
from ..lieh import groups, family, algebra_of, n_alg
from ..runner import run_harness_job, harness_jobs

LEVEL = "proof"
DELTA = Fraction(1, 10 ** 12)
NTERMS = 8
TRUSTED = ["CasADi SX construction, AD and instruction API", "IR->SMT encoder (validated against CasADi's VM on every run)",
           "alternating-series enclosures of sin, cos, atan by consecutive Maclaurin partial sums for |x| <= 1",
           "meaning and limits of the series keys (oracles.series_oracle / SERIES_LIMIT)", "z3 5.1.0 nlsat"]
ASSUMPTIONS = ["real arithmetic with the code's exact double constants; IEEE rounding of the closed branch near the "
               "switch (catastrophic cancellation) is NOT modelled - the 1e-9 claim is truncation + switch jump only",
               "squared series are called with arguments >= 0", "poles: keys '1/x^2' and '(2 - x cos(x))/(2 x^2)' have "
               "no finite limit at 0 and are exempt from the zero-limit claim (no consumer evaluates them)"]
BOUNDS = {"arg": "0 <= |x| <= 1 (Taylor cell: |arg| < 1e-3 as coded)", "DELTA": "1e-12 per coefficient",
          "enclosure": f"{NTERMS} Maclaurin terms"}
EXPLANATION = ("36 one-variable series functions verified against exact oracles with enclosures (truncation error, threshold, "
               "coefficients); AD definedness queries on the series and on every consumer at and around zero rotation")

POLES = {"1/x^2", "(2 - x cos(x))/(2 x^2)"}


def sin_partial(x, n):
    """sum_{k<n} (-1)^k x^(2k+1)/(2k+1)!"""
    acc = None
    p = x
    for k in range(n):
        term = p * Fraction((-1) ** k, math.factorial(2 * k + 1))
        acc = term if acc is None else acc + term
        p = p * x * x
    return acc


def cos_partial(x, n):
    acc = None
    p = 1
    for k in range(n):
        term = p * Fraction((-1) ** k, math.factorial(2 * k))
        acc = term if acc is None else acc + term
        p = p * x * x if not isinstance(p, int) else x * x
    return acc


def atan_partial(x, n):
    acc = None
    p = x
    for k in range(n):
        term = p * Fraction((-1) ** k, 2 * k + 1)
        acc = term if acc is None else acc + term
        p = p * x * x
    return acc


def between(v, a, b):
    """(v - a)(v - b) <= 0"""
    return V.le((v - a) * (v - b), 0)


AFFINE_IN_SC = {  # keys whose denoted function is affine in (sin x, cos x) for fixed x (read off the key)
    "cos(x)", "sin(x)/x", "(1 - cos(x))/x", "(1 - cos(x))/x^2", "(x - sin(x))/x^3", "(-x^2/2 - cos(x) + 1)/x^2",
    "(x^2/2 + cos(x) - 1)/x^4", "1/x^2", "(2 - x cos(x))/(2 x^2)", "(x^2 + 2 cos(x) - 2)/(2 x^4)",
    "(x cos(x) + 2 x - 3 sin(x))/(2 x^5)", "(x^2 + x sin(x) + 4 cos(x) - 4)/(2 x^6)",
    "(2 - 2 cos(x) - x sin(x))/(2 x^4))"}
# the remaining keys are coordinate-wise monotone in (sin x, cos x) on the enclosure box for 0 < x <= 1:
#   x/sin(x): decreasing in s;  s/(1-c)-type keys: increasing in s and in c;  tan(x/4) = s4/c4: increasing in s4,
#   decreasing in c4;  4 atan(x)/x: increasing in atan x.   Either way the extremes over the box are at its corners.


def simple_bounds(x, s, c, positive):
    """cheap enclosures valid for 0 < |x| <= 1, enough to show sin x != 0 and cos x < 1"""
    x3 = x * x * x
    if positive:
        fs = [V.ge(s, x - x3 / 6), V.le(s, x)]
    else:
        fs = [V.le(s, x - x3 / 6), V.ge(s, x)]
    fs += [V.ge(c, 1 - x * x / 2), V.le(c, 1 - x * x / 2 + x * x * x * x / 24)]
    return fs


class SeriesLemma(Harness):
    """S1 on the closed cell(s), S2 on the Taylor cell(s) by corner substitution of the enclosures"""
    timeout_ms = 60000
    max_cells = 8
    n_validate = 4

    def __init__(self, key, squared, positive=True):
        self.key, self.squared, self.positive = key, squared, positive
        self.name = f"C06:series:{'sq' if squared else 'plain'}:{key}" + ("" if positive else ":negx")

    def build(self):
        import cyecca.symbolic as cs
        f = (cs.SQUARED_SERIES if self.squared else cs.SERIES)[self.key]
        u = ca.SX.sym("u")
        return ca.Function("series", [u], [f(u)])

    def make_ctx(self):
        ctx = Ctx()
        key = self.key
        x = Val.var("x")
        one = Val(1)
        if self.positive:
            ctx.assume(x.num_term() > 0, V.le(x, one))
            ctx.roots.append(x)
        else:
            ctx.assume(x.num_term() < 0, V.ge(x, -one))
        aux = dict(x=x)
        if key == "tan(x/4)/x":
            s4, c4 = Val.var("s4"), Val.var("c4")
            y = x / 4
            ctx.assume(V.eq(s4 * s4 + c4 * c4, 1), c4.num_term() > 0)
            ctx.angles.append(Angle(y, sin=s4, cos=c4, tan=s4 / c4, name="x/4"))
            aux.update(tan4=s4 / c4, s4=s4, c4=c4)
        elif key == "4 atan(x)/x":
            a = Val.var("at")
            ctx.angles.append(Angle(a, tan=x, flags={"atan"}, name="atan x"))
            aux.update(atan_x=a)
        else:
            s, c = Val.var("s"), Val.var("c")
            ctx.assume(V.eq(s * s + c * c, 1))
            ctx.angles.append(Angle(x, sin=s, cos=c, name="x"))
            aux.update(s=s, c=c)

        def fix(env):
            xv = env["x"]
            env["s"], env["c"] = mp.sin(xv), mp.cos(xv)
            env["s4"], env["c4"] = mp.sin(xv / 4), mp.cos(xv / 4)
            env["at"] = mp.atan(xv)
        ctx.probe_fix = fix
        ctx.aux = aux
        return ctx, [[x * x if self.squared else x]]

    def sample_env(self, rng):
        self._k = getattr(self, "_k", 0) + 1
        xs = [mp.mpf("0.0005"), mp.mpf("0.3"), mp.mpf("0.02"), mp.mpf("0.9")]
        return {"x": xs[self._k % 4] * (1 if self.positive else -1)}

    def env_fix(self, env):
        xv = env.get("x", mp.mpf(0.5))
        env["s"], env["c"] = mp.sin(xv), mp.cos(xv)
        env["s4"], env["c4"] = mp.sin(xv / 4), mp.cos(xv / 4)
        env["at"] = mp.atan(xv)

    def refine(self, ctx):
        """when a counterexample of the formal identity does not replay (the formal sin/cos were chosen freely),
        tie them to x by their enclosures and ask again"""
        aux = ctx.aux
        x = aux["x"]
        fs = []
        if "s" in aux:
            fs += [between(aux["s"], sin_partial(x, NTERMS), sin_partial(x, NTERMS + 1)),
                   between(aux["c"], cos_partial(x, NTERMS), cos_partial(x, NTERMS + 1))]
        if "s4" in aux:
            fs += [between(aux["s4"], sin_partial(x / 4, NTERMS), sin_partial(x / 4, NTERMS + 1)),
                   between(aux["c4"], cos_partial(x / 4, NTERMS), cos_partial(x / 4, NTERMS + 1))]
        if "atan_x" in aux:
            fs += [between(aux["atan_x"], atan_partial(x, NTERMS), atan_partial(x, NTERMS + 1))]
        return fs

    def claims(self, outs, ins, aux):
        """both claim families are guarded by the region of the *specified* switch (|arg| = 1e-3), so they do not
        depend on where the code's own cells happen to lie: a moved or one-sided threshold is caught as a
        wrong value in the affected region"""
        y = outs[0][0][0]
        x = aux["x"]
        arg = ins[0][0]
        numeric = not isinstance(arg, Val)
        key = self.key
        if numeric:
            eps = mp.mpf("1e-3")
            d = mp.mpf(DELTA.numerator) / DELTA.denominator
            ref = series_oracle(key, x, aux.get("s"), aux.get("c"), tan4=aux.get("tan4"), atan_x=aux.get("atan_x"))
            refs = [ref] * 4
            one = mp.mpf(1)
        else:
            eps = Val(Fraction(1e-3))
            d = DELTA
            one = 1
            ref = series_oracle(key, x, aux.get("s"), aux.get("c"), tan4=aux.get("tan4"), atan_x=aux.get("atan_x"))
            if key == "tan(x/4)/x":
                yv = x / 4
                corners = [dict(tan4=sa / cb) for sa in (sin_partial(yv, NTERMS), sin_partial(yv, NTERMS + 1))
                           for cb in (cos_partial(yv, NTERMS), cos_partial(yv, NTERMS + 1))]
            elif key == "4 atan(x)/x":
                corners = [dict(atan_x=atan_partial(x, NTERMS)), dict(atan_x=atan_partial(x, NTERMS + 1))] * 2
            else:
                corners = [dict(s=sa, c=cb) for sa in (sin_partial(x, NTERMS), sin_partial(x, NTERMS + 1))
                           for cb in (cos_partial(x, NTERMS), cos_partial(x, NTERMS + 1))]
            refs = [series_oracle(key, x, cn.get("s"), cn.get("c"), tan4=cn.get("tan4"), atan_x=cn.get("atan_x"))
                    for cn in corners]
        absarg = arg * arg  # compare squares: |arg| < eps  <=>  arg^2 < eps^2
        e2 = eps * eps
        cl = [Claim("closed_exact", y, ref, guard=(absarg, "ge", e2))]
        if key not in POLES:
            for k, rf in enumerate(refs):
                cl.append(Claim(f"taylor_upper[{k}]", y - rf, d, "le", tol=0, guard=(absarg, "lt", e2)))
                cl.append(Claim(f"taylor_lower[{k}]", y - rf, -d, "ge", tol=0, guard=(absarg, "lt", e2)))
        return cl


ODD_SQUARED = {"(1 - cos(x))/x"}  # odd in x: as a function of x^2 it behaves like sqrt(u)/2, AD infinite at 0; unused


class SeriesZero(Harness):
    """value at arg = 0 is within DELTA of the limit; AD of the series function is defined at 0"""
    n_validate = 1
    defined = "prove"

    def __init__(self, key, squared):
        self.key, self.squared = key, squared
        self.name = f"C06:series0:{'sq' if squared else 'plain'}:{key}"

    def build(self):
        import cyecca.symbolic as cs
        f = (cs.SQUARED_SERIES if self.squared else cs.SERIES)[self.key]
        u = ca.SX.sym("u")
        y = f(u)
        dy = ca.jacobian(y, u)
        d = ca.SX.sym("d")
        f0 = ca.Function("f0", [u], [y, dy])
        z = f0(0 * d)
        return ca.Function("series0", [d], [z[0], z[1]])

    def make_ctx(self):
        ctx = Ctx()
        ctx.aux = {}
        return ctx, [[Val.var("d")]]

    def claims(self, outs, ins, aux):
        lim = SERIES_LIMIT[self.key]
        y = outs[0][0][0]
        numeric = not isinstance(ins[0][0], Val)
        d = DELTA if not numeric else mp.mpf(DELTA.numerator) / DELTA.denominator
        l = lim if not numeric else mp.mpf(lim.numerator) / lim.denominator
        return [Claim("limit_upper", y - l, d, "le", tol=0), Claim("limit_lower", y - l, -d, "ge", tol=0)]


class SeriesAD(Harness):
    """S5: the derivative of the series function is defined on every branch for 0 < |x| <= 1"""
    timeout_ms = 60000
    max_cells = 8
    defined = "prove"

    def __init__(self, key, squared, positive=True):
        self.key, self.squared, self.positive = key, squared, positive
        self.name = f"C06:seriesAD:{'sq' if squared else 'plain'}:{key}" + ("" if positive else ":negx")

    def build(self):
        import cyecca.symbolic as cs
        f = (cs.SQUARED_SERIES if self.squared else cs.SERIES)[self.key]
        u = ca.SX.sym("u")
        return ca.Function("dseries", [u], [ca.jacobian(f(u), u)])

    def make_ctx(self):
        ctx, iv = SeriesLemma.make_ctx(self)
        aux = ctx.aux
        x = aux["x"]
        ex = []
        if "s" in aux:
            ex = simple_bounds(x, aux["s"], aux["c"], self.positive)
        elif "s4" in aux:
            ex = simple_bounds(x / 4, aux["s4"], aux["c4"], self.positive)
        self.defined_extra = ex
        return ctx, iv

    env_fix = SeriesLemma.env_fix
    sample_env = SeriesLemma.sample_env

    def claims(self, outs, ins, aux):
        return []  # only the definedness obligations added by the driver


# ---- consumers: AD finite at and around zero rotation -----------------------------------------

def consumer_functions():
    """name -> (builder of outputs from an algebra/group parameter vector near the identity, n_in, zero point)"""
    L = groups()
    import cyecca.lie as lie
    C = {}
    for g in ("SO3Quat", "SO3Mrp", "SO3Dcm", "SE3Quat", "SE3Mrp", "SE23Quat", "SE23Mrp", "SE2"):
        fam = family(g)
        alg = algebra_of(fam)
        C[f"exp:{g}"] = (lambda x, g=g, alg=alg: alg.elem(x).exp(L[g]).param, n_alg(fam), None)
    for fam in ("SO3", "SE3", "SE23"):
        alg = algebra_of(fam)
        for jn in ("left_jacobian", "left_jacobian_inv", "right_jacobian", "right_jacobian_inv"):
            C[f"{jn}:{fam}"] = (lambda x, alg=alg, jn=jn: ca.vec(ca.SX(getattr(alg.elem(x), jn)())), n_alg(fam), None)
    # log near the identity element: parameters = identity + small perturbation d
    for g in ("SO3Quat", "SO3Mrp", "SO3Dcm", "SE3Quat", "SE3Mrp", "SE23Quat", "SE23Mrp", "SE2"):
        G = L[g]
        e = ca.DM(G.identity().param)
        C[f"log:{g}"] = (lambda d, G=G, e=e: G.elem(e + d).log().param, G.n_param, None)
    return C


class ConsumerAD(Harness):
    """jacobian (CasADi AD) of a consumer evaluated exactly at zero rotation (all other inputs symbolic)
    must be defined: no zero denominator, sqrt of a negative or 0 * inf on the selected branch."""
    n_validate = 1
    defined = "prove"
    max_cells = 8

    def __init__(self, cname):
        self.cname = cname
        self.name = f"C06:AD0:{cname}"

    def build(self):
        fn, n, _ = consumer_functions()[self.cname]
        x = ca.SX.sym("x", n)
        y = ca.SX(fn(x))
        J = ca.jacobian(y, x)
        f = ca.Function("cons", [x], [y, J])
        # zero rotation: rotation-related inputs exactly 0, translations symbolic
        t = ca.SX.sym("t", n)
        mask = self._mask(n)
        z = f(ca.vertcat(*[t[i] if mask[i] else 0 for i in range(n)]))
        return ca.Function("cons0", [t], [z[0], z[1]])

    def _mask(self, n):
        """True = symbolic (translation-like), False = pinned to zero (rotation-like)"""
        c = self.cname
        kind, g = c.split(":")
        if kind == "log":
            if g.startswith("SE3"):
                return [True] * 3 + [False] * (n - 3)
            if g.startswith("SE23"):
                return [True] * 6 + [False] * (n - 6)
            if g == "SE2":
                return [True, True, False]
            return [False] * n
        if g in ("SE3", "SE3Quat", "SE3Mrp"):
            return [True] * 3 + [False] * 3
        if g in ("SE23", "SE23Quat", "SE23Mrp"):
            return [True] * 6 + [False] * 3
        if g == "SE2":
            return [True, True, False]
        return [False] * n

    def make_ctx(self):
        ctx = Ctx()
        ctx.aux = {}
        fn, n, _ = consumer_functions()[self.cname]
        return ctx, [[Val.var(f"t{i}") for i in range(n)]]

    def claims(self, outs, ins, aux):
        return []


class ConsumerADNear(ConsumerAD):
    """same, for every input with rotation-related components in the box |x_i| <= 1/100 around zero rotation
    (all inside the Taylor cells) and arbitrary translations"""
    timeout_ms = 60000
    max_cells = 16

    def __init__(self, cname):
        self.cname = cname
        self.name = f"C06:ADnear:{cname}"

    def build(self):
        fn, n, _ = consumer_functions()[self.cname]
        x = ca.SX.sym("x", n)
        y = ca.SX(fn(x))
        return ca.Function("consnear", [x], [y, ca.jacobian(y, x)])

    def make_ctx(self):
        ctx = Ctx()
        ctx.aux = {}
        fn, n, _ = consumer_functions()[self.cname]
        mask = self._mask(n)
        xs = [Val.var(f"t{i}") for i in range(n)]
        b = Val(Fraction(1, 100))
        for i in range(n):
            if not mask[i]:
                ctx.assume(V.le(xs[i], b), V.ge(xs[i], -b))
        return ctx, [xs]


def all_harnesses(tier):
    hs = []
    for sq in (False, True):
        for k in SERIES_KEYS:
            hs.append(SeriesLemma(k, sq))
            hs.append(SeriesAD(k, sq))
            if not sq and k != "tan(x/4)/x":
                hs.append(SeriesLemma(k, sq, positive=False))
                hs.append(SeriesAD(k, sq, positive=False))
            if k not in POLES and not (sq and k in ODD_SQUARED):
                hs.append(SeriesZero(k, sq))
    for c in consumer_functions():
        hs.append(ConsumerAD(c))
        # "around zero" (whole Taylor cell, symbolic input): decided in the thorough tier for the exp and Jacobian
        # consumers of SO(3)/SE(3); SE_2(3) and the log consumers did not finish (not claimed)
        if tier == "thorough" and not c.startswith("log:") and "SE23" not in c and c != "exp:SE2":
            hs.append(ConsumerADNear(c))
    return hs


def get_harness(name, tier="quick"):
    for h in all_harnesses(tier):
        if h.name == name:
            return h
    raise KeyError(name)


def jobs(tier, seed):
    return harness_jobs(__name__, all_harnesses(tier), seed, tier)
