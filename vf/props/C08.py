"""C08 - strapdown INS propagation on SE_2(3) is the exact flow of the IMU kinematics."""
from __future__ import annotations
import casadi as ca
import mpmath as mp
import z3

from ..harness import Harness, Claim, HarnessError, StructureChanged
from ..val import Val
from .. import val as V
from ..enc import Ctx, Angle
from ..oracles import Lattice, s2_chart, s3_chart, quat_to_R, quat_mul, rot_axis_angle
from ..runner import run_harness_job, harness_jobs
from .C02 import entry_claims
from .C03 import Stubbed

LEVEL = "proof"
TRUSTED = ["CasADi SX construction + instruction API", "IR->SMT encoder (validated against CasADi's VM on every run)",
           "closed-form flow of p'=v, v'=R a - g e3, R'=R[w]x for constant a, w (Gamma_1, Gamma_2 series summed in closed form)",
           "Weierstrass lattice, angle addition formulas; meaning of the series keys (C06 lemmas)", "z3 5.1.0 nlsat"]
ASSUMPTIONS = ["real arithmetic (no IEEE rounding)", "dt > 0; |w| dt in (0, 2pi) symbolic, w = 0 and dt = 0 by exact evaluation",
               "q0 on the S^3 chart (both signs) for the quaternion claims; the p/v law is also proved for arbitrary q0 in R^4 "
               "with M(q0) in place of R0"]
BOUNDS = {"steps": "one step from an arbitrary state + the two-step semigroup law (inductive step for any sequence)"}
EXPLANATION = ("strapdown_ins_propagate and SE23Quat.exp_mixed are executed on symbols with series stubs; every component "
               "of x1 is compared with the closed-form flow; semigroup law with two lattice angles")


def strap():
    import cyecca.models.rdd2 as rdd2
    return rdd2.derive_strapdown_ins_propagation()["strapdown_ins_propagate"]


def method_step(x0, a, w, g, dt):
    """the strapdown step expressed directly with the SE23Quat group method (same wiring as
    derive_strapdown_ins_propagation; equality with the shipped function is its own harness)"""
    import cyecca.lie as lie
    X0 = lie.SE23Quat.elem(x0)
    l = lie.se23.elem(ca.vertcat(0, 0, 0, a, w))
    r = lie.se23.elem(ca.vertcat(0, 0, 0, 0, 0, -g, 0, 0, 0))
    B = ca.sparsify(ca.SX([[0, 1], [0, 0]]))
    return lie.SE23Quat.exp_mixed(X0, l * dt, r * dt, B * dt).param


def flow_oracle(p0, v0, R0, a, n, th, s, c, g, dt):
    """closed-form solution at time dt; rotation increment E = Rodrigues(n, th), th = |w| dt.
    Gamma_1 = I + (1-c)/th N + (th-s)/th N^2 ;  Gamma_2 = I/2 + (th-s)/th^2 N + (th^2/2 + c - 1)/th^2 N^2"""
    N = V.hat(n)
    N2 = V.mat_mul(N, N)
    I = V.mat_eye(3)
    G1 = V.mat_add(I, V.mat_add(V.mat_scale((1 - c) / th, N), V.mat_scale((th - s) / th, N2)))
    G2 = V.mat_add(V.mat_scale((th - s) / (th * th), N), V.mat_scale((th * th / 2 + c - 1) / (th * th), N2))
    for i in range(3):
        G2[i][i] = G2[i][i] + _half(th)
    Ra1 = V.mat_vec(R0, V.mat_vec(G1, a))
    Ra2 = V.mat_vec(R0, V.mat_vec(G2, a))
    v1 = [v0[i] + Ra1[i] * dt - (g * dt if i == 2 else 0) for i in range(3)]
    p1 = [p0[i] + v0[i] * dt + Ra2[i] * dt * dt - (g * dt * dt / 2 if i == 2 else 0) for i in range(3)]
    E = rot_axis_angle(n, s, c)
    return p1, v1, V.mat_mul(R0, E)


def _half(like):
    from fractions import Fraction
    if isinstance(like, Val):
        return Val(Fraction(1, 2))
    return mp.mpf(1) / 2


class Flow(Stubbed):
    """x1 = closed-form flow(x0; a, w, g, dt), |w| dt = th in (0, 2pi)"""
    timeout_ms = 60000

    def __init__(self, via, qchart):
        self.via = via  # 'function' (generated strapdown function) or 'method' (SE23Quat.exp_mixed directly)
        self.qchart = qchart  # 'unit+', 'unit-', 'free'
        self.name = f"C08:flow:{via}:{qchart}"
        self.n_in = (10, 3, 3, 1, 1)

    def _real(self, x0, a, w, g, dt):
        x1 = method_step(x0, a, w, g, dt)
        import cyecca.lie as lie
        return [x1, lie.SO3Quat.elem(x0[6:10]).to_Matrix(), lie.SO3Quat.elem(x1[6:10]).to_Matrix()]

    def _inputs(self, ctx):
        L = Lattice(ctx, "th", "quarter")
        self.lats = [L]
        a_, b_ = Val.var("a"), Val.var("b")
        n = s2_chart(a_, b_)
        dt = Val.var("dt")
        g = Val.var("g")
        ctx.assume(dt.num_term() > 0)
        p0 = [Val.var(f"p{i}") for i in range(3)]
        v0 = [Val.var(f"v{i}") for i in range(3)]
        if self.qchart == "free":
            q0 = [Val.var(f"q{i}") for i in range(4)]
        else:
            u = [Val.var(f"u{i}") for i in range(3)]
            q0 = s3_chart(u[0], u[1], u[2], 1 if self.qchart == "unit+" else -1)
        acc = [Val.var(f"acc{i}") for i in range(3)]
        w = [L.th * n[i] / dt for i in range(3)]
        ctx.aux = dict(n=n, th=L.th, s=L.s, c=L.c, s2=L.s2, c2=L.c2, q0=q0)
        return [p0 + v0 + q0, acc, w, [g], [dt]]

    def claims(self, outs, ins, aux):
        x1, R0, R1 = outs
        x0, a, w, g, dt = ins[:5]
        p0, v0, q0 = x0[0:3], x0[3:6], x0[6:10]
        p1, v1, R1o = flow_oracle(p0, v0, R0, a, aux["n"], aux["th"], aux["s"], aux["c"], g[0], dt[0])
        cl = []
        for i in range(3):
            cl.append(Claim(f"p1[{i}]", x1[i][0], p1[i]))
            cl.append(Claim(f"v1[{i}]", x1[3 + i][0], v1[i]))
        cl += entry_claims("R1", R1, R1o)
        # quaternion itself: q1 = q0 (x) (cos th/2, sin th/2 n); norm preserved
        n = aux["n"]
        e = [aux["c2"], aux["s2"] * n[0], aux["s2"] * n[1], aux["s2"] * n[2]]
        q1o = quat_mul(q0, e)
        q1 = [x1[6 + i][0] for i in range(4)]
        for i in range(4):
            cl.append(Claim(f"q1[{i}]", q1[i], q1o[i]))
        cl.append(Claim("norm", V.dot(q1, q1), V.dot(q0, q0)))
        return cl


class FlowZeroRate(Harness):
    """w = 0: exact constant-coefficient evaluation through the Taylor cells; also dt = 0 is the identity"""
    timeout_ms = 30000

    def __init__(self, case):
        self.case = case  # 'w0' or 'dt0'
        self.name = f"C08:flow:{case}"

    def build(self):
        f = strap()
        x0 = ca.SX.sym("x0", 10)
        a = ca.SX.sym("a", 3)
        g = ca.SX.sym("g")
        import cyecca.lie as lie
        if self.case == "w0":
            dt = ca.SX.sym("dt")
            # the rate stays a run-time input (bound to exactly 0 in make_ctx): a structural zero would let CasADi drop
            # terms such as 0 * (0/0) that a caller passing omega = 0 at run time does evaluate
            w = ca.SX.sym("w", 3)
            x1 = f(x0, a, w, g, dt)
            return ca.Function("flow_w0", [x0, a, g, dt, w], [x1, lie.SO3Quat.elem(x0[6:10]).to_Matrix()])
        w = ca.SX.sym("w", 3)
        x1 = f(x0, a, w, g, 0)
        return ca.Function("flow_dt0", [x0, a, g, w], [x1, lie.SO3Quat.elem(x0[6:10]).to_Matrix()])

    def make_ctx(self):
        ctx = Ctx()
        ctx.aux = {}
        x0 = [Val.var(f"x{i}") for i in range(10)]
        a = [Val.var(f"acc{i}") for i in range(3)]
        last = [Val.var("dt")] if self.case == "w0" else [Val.var(f"w{i}") for i in range(3)]
        if self.case == "w0":
            return ctx, [x0, a, [Val.var("g")], last, [Val(0), Val(0), Val(0)]]
        return ctx, [x0, a, [Val.var("g")], last]

    def claims(self, outs, ins, aux):
        x1, R0 = outs
        x0, a, g, last = ins[:4]
        cl = []
        if self.case == "dt0":
            return [Claim(f"identity[{i}]", x1[i][0], x0[i]) for i in range(10)]
        dt = last[0]
        Ra = V.mat_vec(R0, a)
        for i in range(3):
            cl.append(Claim(f"v1[{i}]", x1[3 + i][0], x0[3 + i] + Ra[i] * dt - (g[0] * dt if i == 2 else 0)))
            cl.append(Claim(f"p1[{i}]", x1[i][0], x0[i] + x0[3 + i] * dt + Ra[i] * dt * dt / 2
                            - (g[0] * dt * dt / 2 if i == 2 else 0)))
        for i in range(4):
            cl.append(Claim(f"q1[{i}]", x1[6 + i][0], x0[6 + i]))
        return cl


class Semigroup(Stubbed):
    """Phi(dt2) o Phi(dt1) = Phi(dt1 + dt2) with constant inputs: th1 = |w| dt1, th2 = |w| dt2 on two lattices,
    th1 + th2 by the addition formulas (inductive step for arbitrary step sequences)"""
    timeout_ms = 120000

    def __init__(self):
        self.name = "C08:semigroup"
        self.n_in = (10, 3, 3, 1, 1, 1)
        self.shards = 2

    def _real(self, x0, a, w, g, dt1, dt2):
        xa = method_step(x0, a, w, g, dt1)
        xb = method_step(xa, a, w, g, dt2)
        xc = method_step(x0, a, w, g, dt1 + dt2)
        return [xb, xc]

    def _inputs(self, ctx):
        L1 = Lattice(ctx, "th1", "quarter")
        L2 = Lattice(ctx, "th2", "quarter")
        self.lats = [L1, L2]
        # half-angle and full-angle sums
        A, B = L1.A2, L2.A2
        sh = A.sin * B.cos + A.cos * B.sin
        ch = A.cos * B.cos - A.sin * B.sin
        ctx.angles.append(Angle((L1.th + L2.th) / 2, sin=sh, cos=ch, name="(th1+th2)/2"))
        ctx.angles.append(Angle(L1.th + L2.th, sin=2 * sh * ch, cos=ch * ch - sh * sh, name="th1+th2"))
        ctx.roots.append(L1.th + L2.th)
        ctx.roots.append((L1.th + L2.th) / 2)
        a_, b_ = Val.var("a"), Val.var("b")
        n = s2_chart(a_, b_)
        wn = Val.var("wn")
        ctx.assume(wn.num_term() > 0)
        x0 = [Val.var(f"x{i}") for i in range(10)]
        acc = [Val.var(f"acc{i}") for i in range(3)]
        w = [wn * n[i] for i in range(3)]
        ctx.aux = {}
        return [x0, acc, w, [Val.var("g")], [L1.th / wn], [L2.th / wn]]

    def claims(self, outs, ins, aux):
        xb, xc = outs
        return [Claim(f"semigroup[{i}]", xb[i][0], xc[i][0]) for i in range(10)]


class FunctionIsMethod(Harness):
    """the shipped CasADi function strapdown_ins_propagate computes exactly the group-method step the other
    harnesses analyse (all branch cells, all inputs)"""
    timeout_ms = 30000
    max_cells = 16

    def __init__(self):
        self.name = "C08:function_is_method"

    def build(self):
        f = strap()
        if [f.name_in(i) for i in range(f.n_in())] != ["x0", "a_b", "omega_b", "g", "dt"] or f.n_out() != 1:
            raise StructureChanged("strapdown_ins_propagate has an unexpected signature")
        x0, a, w = ca.SX.sym("x0", 10), ca.SX.sym("a", 3), ca.SX.sym("w", 3)
        g, dt = ca.SX.sym("g"), ca.SX.sym("dt")
        return ca.Function("fim", [x0, a, w, g, dt], [f(x0, a, w, g, dt), method_step(x0, a, w, g, dt)])

    def make_ctx(self):
        ctx = Ctx()
        ctx.aux = {}
        return ctx, [[Val.var(f"x{i}") for i in range(10)], [Val.var(f"acc{i}") for i in range(3)],
                     [Val.var(f"w{i}") for i in range(3)], [Val.var("g")], [Val.var("dt")]]

    def claims(self, outs, ins, aux):
        return [Claim(f"same[{i}]", outs[0][i][0], outs[1][i][0]) for i in range(10)]


class Wrapper(Harness):
    """the element-level wrapper X0.exp_mixed(l, r, B) must forward (X0, l, r, B) to the group method"""
    n_validate = 1

    def __init__(self):
        self.name = "C08:element_wrapper"

    def build(self):
        import cyecca.lie as lie
        import cyecca.lie.group_se23 as g23
        x0 = ca.SX.sym("x0", 10)
        l = lie.se23.elem(ca.SX.sym("l", 9))
        r = lie.se23.elem(ca.SX.sym("r", 9))
        B = ca.sparsify(ca.SX([[0, 1], [0, 0]]))
        X0 = lie.SE23Quat.elem(x0)
        rec = []
        orig = g23.SE23LieGroup.exp_mixed

        def fake(self_, *a, **k):
            rec.append((a, k))
            return X0
        g23.SE23LieGroup.exp_mixed = fake
        try:
            X0.exp_mixed(l, r, B)
        finally:
            g23.SE23LieGroup.exp_mixed = orig
        args = list(rec[0][0]) + list(rec[0][1].values())
        if len(args) != 4 or args[0] is not X0 or args[1] is not l or args[2] is not r:
            raise TypeError(f"SE23LieGroupElement.exp_mixed forwards {len(args)} argument(s) to the group method, "
                            "which needs (X0, l, r, B)")
        # the real call must work as well
        X1 = X0.exp_mixed(l, r, B)
        d = ca.SX.sym("d")
        return ca.Function("wrapper", [d], [d * ca.SX(X1.param.shape[0])])

    def make_ctx(self):
        ctx = Ctx()
        ctx.aux = {}
        return ctx, [[Val.var("d")]]

    def claims(self, outs, ins, aux):
        return [Claim("returns_state_of_dimension_10", outs[0][0][0], ins[0][0] * 10)]


def all_harnesses(tier):
    hs = [Flow("method", "unit+"), Flow("method", "unit-"), Flow("method", "free"), FunctionIsMethod(),
          FlowZeroRate("w0"), FlowZeroRate("dt0"), Semigroup(), Wrapper()]
    return hs


def get_harness(name, tier="quick"):
    for h in all_harnesses(tier):
        if h.name == name:
            return h
    raise KeyError(name)


def jobs(tier, seed):
    return harness_jobs(__name__, all_harnesses(tier), seed, tier)
