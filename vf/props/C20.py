"""C20 - the simulation bus delivers every message once, in order, to the right nodes; estimator scheduling.

Front end D: CrossHair (symbolic execution of Python with z3) on harness functions in vf/crosshair_c20.py that
drive the real uros classes and the real AttitudeEstimator node.  Only "Confirmed over all paths" counts as a
pass; "Not confirmed" / "Unable to meet precondition" are inconclusive; a counterexample is replayed by
calling the harness function concretely in a fresh interpreter."""
from __future__ import annotations
import ast
import os
import re
import subprocess
import sys
import time

LEVEL = "model_checking"
TRUSTED = ["CrossHair 0.0.110 + z3 (path-exhaustive symbolic execution within the stated bounds)",
           "the harness' reference model of delivery / parameter propagation", "recording stubs for the CasADi kernels"]
ASSUMPTIONS = ["numeric kernels of the estimator are recording stubs; status/attitude messages are dict-backed stand-ins",
               "Logger harness: the logger's latest-data record and the parameter message are dict-backed stand-ins (times stay "
               "symbolic); Logger.get_log_as_array (NumPy conversion of the rows) is outside the claim; floats are modelled "
               "as reals by CrossHair"]
BOUNDS = {"quick": {"bus": "<= 2 subscribers x <= 3 publications x 3 topics (all assignments)",
                    "type check": "3 publishers x 3 message types", "parameters": "<= 3 updates over 3 parameters, 2 nodes",
                    "estimator": "<= 3 callbacks, any imu/mag pattern, arbitrary times in [0, 100], with and without init",
                    "logger": "run of 0.05 s, initial period 0.02 s, <= 1 driver action (publish a / publish b / set period in "
                              "[0.01, 0.04]) after an arbitrary gap in [0, 0.03]"},
          "thorough": {"bus": "<= 3 subscribers x <= 4 publications", "estimator": "as quick", "logger": "as quick"}}
EXPLANATION = ("bounded, path-exhaustive symbolic execution of the real bus and estimator-node code; each claim is a "
               "postcondition over symbolic inputs; reachability twins guard against vacuity")

ROOT = os.path.dirname(os.path.dirname(os.path.dirname(os.path.abspath(__file__))))
FUNCS = ["bus_delivery", "bus_type_check", "param_propagation", "estimator_schedule", "logger_rows"]


def run_crosshair(fn, tier, timeout_s):
    env = dict(os.environ)
    env["PYTHONPATH"] = f"{ROOT}:/repo"
    if tier == "thorough":
        env["VERIF_C20_BIG"] = "1"
    cmd = [sys.executable, "-W", "ignore", "-m", "crosshair", "check", "-v", "--report_all",
           "--per_condition_timeout", str(timeout_s), "--per_path_timeout", "60", f"vf.crosshair_c20.{fn}"]
    t0 = time.time()
    try:
        p = subprocess.run(cmd, capture_output=True, text=True, env=env, cwd=ROOT, timeout=timeout_s + 120)
        out = p.stdout + p.stderr
    except subprocess.TimeoutExpired as e:
        out = (e.stdout or "") + (e.stderr or "") if isinstance(e.stdout, str) else ""
        out += "\nTIMEOUT"
    return out, time.time() - t0


def job(fn, tier, seed, prefix="C20"):
    name = f"{prefix}:{fn}"
    stats = dict(name=name, cells=0, queries=0, solver_time=0.0, functions=[dict(function=fn)], resolutions={})
    recs = []
    tmo = 900 if tier == "quick" else 3000
    # main condition
    out, dt = run_crosshair(fn, tier, tmo)
    m = re.findall(r"Path tree stats \{([^}]*)\}", out)
    paths = {}
    if m:
        for kv in m[-1].split(","):
            k, _, v = kv.strip().partition(":")
            try:
                paths[k] = int(v)
            except ValueError:
                pass
    it = re.findall(r"Number of iterations:\s+(\d+)", out)
    stats["paths_confirmed"] = paths.get("CONFIRMED", 0)
    stats["iterations"] = int(it[-1]) if it else 0
    stats["cells"] = stats["paths_confirmed"]
    stats["solver_time"] = dt
    verdict = [l for l in out.splitlines() if re.search(r"crosshair_c20\.py:\d+: (info|error)", l)]
    rec = dict(label=fn, harness=name, t=round(dt, 1), cell=f"paths={paths.get('CONFIRMED', 0)}")
    if any("Confirmed over all paths" in l for l in verdict):
        rec["status"] = "proved"
    elif any(": error:" in l for l in verdict):
        line = [l for l in verdict if ": error:" in l][0]
        call = re.search(r"when calling (\w+\(.*\)) \(which", line)
        rp = dict(confirmed=False, crosshair=line[:500])
        if call:
            rp.update(replay_call(call.group(1)))
        rec["replay"] = rp
        rec["status"] = "refuted" if rp.get("confirmed") else "spurious"
    else:
        rec["status"] = "unknown"
        rec["reason"] = (verdict[-1] if verdict else out[-300:])[:300]
    recs.append(rec)
    # reachability twin: must be refuted (counterexample found)
    out2, dt2 = run_crosshair(fn + "_twin", tier, 300)
    v2 = [l for l in out2.splitlines() if re.search(r"crosshair_c20\.py:\d+: (info|error)", l)]
    if not any(": error:" in l for l in v2):
        recs.append(dict(label="reachability", status="vacuous", harness=name, cell="twin"))
    return dict(records=recs, stats=stats)


def replay_call(call_src):
    """evaluate the counterexample call concretely in a fresh interpreter against the real code"""
    code = ("import sys; sys.path[:0]=['%s','/repo']\n"
            "from vf.crosshair_c20 import *\n"
            "r = %s\nprint('RESULT', r)\n" % (ROOT, call_src.replace(":=", "=").replace("v1=", "")))
    # crosshair prints shared values as v1:=...; fall back to a literal rewrite
    m = re.search(r"v1:=(\([^)]*\))", call_src)
    if m:
        code = code.replace(call_src.replace(":=", "=").replace("v1=", ""), call_src.replace(f"v1:={m.group(1)}", m.group(1)).replace("v1", m.group(1)))
    p = subprocess.run([sys.executable, "-W", "ignore", "-c", code], capture_output=True, text=True, timeout=300)
    res = re.search(r"RESULT (\w+)", p.stdout)
    if not res:
        return dict(confirmed=False, reason="replay failed: " + (p.stderr or p.stdout)[-300:], call=call_src)
    return dict(confirmed=(res.group(1) == "False"), call=call_src, returned=res.group(1))


def jobs(tier, seed):
    fns = list(FUNCS)
    if tier == "thorough":
        fns += ["bus_delivery_big"]  # logger_two_period_changes was confirmed stand-alone (7 min) but not inside the tier (3000 s cap, twice); estimator (<= 4 callbacks) and logger (<= 2 actions) were not confirmed within 3000 s: not claimed
    return [(f"C20:{fn}", job, (fn, tier, seed)) for fn in fns]


JOB_TIMEOUT = {"quick": 1500, "thorough": 4000}


def evidence(tier, seed, recs, stats):
    st = sum(s.get("paths_confirmed", 0) for s in stats)
    it = sum(s.get("iterations", 0) for s in stats)
    return dict(states=max(st, 1), transitions=max(it, 1), traces_validated_against_impl=st,
                samples=[dict(function=s["name"], paths_confirmed=s.get("paths_confirmed"), iterations=s.get("iterations"))
                         for s in stats],
                note="states = symbolic paths CrossHair confirmed (each path runs the real classes); transitions = search iterations")


def custom_replay(rp):
    call = (rp.get("replay") or {}).get("call")
    if not call:
        return False, dict(note="no concrete call recorded")
    r = replay_call(call)
    return bool(r.get("confirmed")), r
