"""C07 - SO(3) representation conversions preserve the rotation and yield valid parameters."""
from __future__ import annotations
import casadi as ca
import mpmath as mp
import z3

from ..harness import Harness, Claim, HarnessError, StructureChanged
from ..val import Val
from .. import val as V
from ..enc import Ctx
from ..lieh import groups, group_input, MatrixCut
from ..oracles import s3_chart, quat_to_R
from ..runner import run_harness_job, harness_jobs
from .C02 import entry_claims

LEVEL = "proof"
TRUSTED = ["CasADi SX construction + instruction API", "IR->SMT encoder (validated against CasADi's VM on every run)",
           "S^3 stereographic charts (two signs cover every unit quaternion); every rotation matrix is R(q) for a unit q",
           "every rotation matrix outside the gimbal band has canonical 3-2-1 Euler angles; asin/atan2 contracts",
           "z3 5.1.0 nlsat"]
ASSUMPTIONS = ["real arithmetic (no IEEE rounding)",
               "Euler pitch band +-(1e-3 + 1e-9) around +-pi/2 excluded from the exact claim (inside: not decided)",
               "composite conversions are verified modularly: the matrix handed to the leaf extractor "
               "(SO3Quat.from_Matrix / Euler.from_Matrix) is M(X), and the leaf extractor is verified for every rotation matrix"]
BOUNDS = {"pairs": "12 ordered pairs + 4 from_Matrix entry points + shadow_if_necessary",
          "cells": "4 Shepperd branches, shadow / non-shadow, Euler regular branch"}
EXPLANATION = ("conversions executed symbolically; per branch cell, M(conv X) = M(X), unit norm / |r|<=1 / orthonormal+det 1, "
               "and non-zero denominators on the selected branch are z3 queries over all rotations of the cell")

REPS = ["Quat", "Mrp", "Dcm", "EulerB321"]


def G(rep):
    return groups()["SO3" + rep]


def ortho_claims(tag, R):
    RtR = V.mat_mul(V.mat_T(R), R)
    cl = entry_claims(f"{tag}:RtR", RtR, V.mat_eye(3))
    det = (R[0][0] * (R[1][1] * R[2][2] - R[1][2] * R[2][1]) - R[0][1] * (R[1][0] * R[2][2] - R[1][2] * R[2][0])
           + R[0][2] * (R[1][0] * R[2][1] - R[1][1] * R[2][0]))
    cl.append(Claim(f"{tag}:det", det, 1))
    return cl


def valid_claims(rep, tag, param, M):
    """validity of the *result* parameters (column vector as list of rows)"""
    p = [row[0] for row in param]
    if rep == "Quat":
        return [Claim(f"{tag}:unit", V.dot(p, p), 1)]
    if rep == "Mrp":
        return [Claim(f"{tag}:inner", V.dot(p, p), 1, "le")]
    if rep == "Dcm":
        return ortho_claims(tag, M)
    return []


class Direct(Harness):
    """a conversion that does not go through a matrix extractor: M(conv X) = M(X) + validity + definedness"""
    timeout_ms = 60000
    defined = "prove"
    max_cells = 100

    def __init__(self, target, source, sign=1):
        self.target, self.source, self.sign = target, source, sign
        self.name = f"C07:{target}.from_{source.replace('EulerB321', 'Euler')}" + ("" if sign == 1 else ":negq")
        if (target, source) == ("Mrp", "Quat"):
            self.shards = 6  # one branch cell is empty but hard to refute: its obligations run into their time caps

    def build(self):
        S, T = G(self.source), G(self.target)
        x = ca.SX.sym("x", S.n_param)
        X = S.elem(x)
        meth = getattr(T, "from_" + {"Quat": "Quat", "Mrp": "Mrp", "Dcm": "Dcm", "EulerB321": "Euler"}[self.source])
        Y = meth(X)
        return ca.Function(self.name.replace(":", "_").replace(".", "_"), [x],
                           [ca.SX(X.to_Matrix()), ca.SX(Y.to_Matrix()), ca.SX(Y.param)])

    def make_ctx(self):
        ctx = Ctx()
        g = group_input(ctx, "SO3" + self.source, "X", self.sign)
        self.lats = g.lats
        ctx.aux = {}
        return ctx, [g.params]

    def env_fix(self, env):
        for L in self.lats:
            L.concretize(env)

    def claims(self, outs, ins, aux):
        MX, MY, py = outs
        return entry_claims("same_rotation", MY, MX) + valid_claims(self.target, "valid", py, MY)


class FromMatrixLeaf(Harness):
    """leaf extractors on every rotation matrix R = R(q), q on the S^3 chart of the given sign:
    SO3Quat.from_Matrix (4 Shepperd cells): M = R, unit norm, selected-branch denominators non-zero."""
    timeout_ms = 90000
    defined = "prove"
    max_cells = 100

    def __init__(self, sign):
        self.sign = sign
        self.name = "C07:Quat.from_Matrix" + ("" if sign == 1 else ":negq")
        self.shards = 4

    def build(self):
        T = G("Quat")
        R = ca.SX.sym("R", 3, 3)
        Y = T.from_Matrix(R)
        return ca.Function("quat_from_matrix", [ca.vec(R)], [ca.SX(Y.to_Matrix()), ca.SX(Y.param)])

    def make_ctx(self):
        ctx = Ctx()
        u = [Val.var(f"u{i}") for i in range(3)]
        q = s3_chart(u[0], u[1], u[2], self.sign)
        R = quat_to_R(q)
        ctx.aux = {"R": R}
        return ctx, [V.vec(R)]

    def claims(self, outs, ins, aux):
        MY, py = outs
        # scalar part >= -1/2 (used by the composites: the extracted quaternion is never -identity)
        half = Val.const("-1/2") if isinstance(py[0][0], Val) else mp.mpf(-0.5)
        return (entry_claims("same_rotation", MY, aux["R"]) + valid_claims("Quat", "valid", py, MY)
                + [Claim("scalar_ge_-1/2", py[0][0], half, "ge")])


class Composite(Harness):
    """conversion that ends in a matrix extractor: cut at SO3Quat/Euler.from_Matrix.
    Claims: (1) the extractor receives M(X); (2) the result is the extractor's output P itself (Quat/Euler
    targets) or exactly target.from_Quat(P) (MRP/DCM targets; from_Quat is verified for every unit
    quaternion by the direct harnesses).  With the leaf lemmas this gives M(conv X) = M(X) and validity."""
    timeout_ms = 60000

    def __init__(self, target, source):
        self.target, self.source = target, source
        src = {"Quat": "Quat", "Mrp": "Mrp", "Dcm": "Dcm", "EulerB321": "Euler", "Matrix": "Matrix"}[source]
        self.meth = "from_" + src
        self.name = f"C07:{target}.{self.meth}:composite"

    def build(self):
        T = G(self.target)
        if self.source == "Matrix":
            Rm = ca.SX.sym("R", 3, 3)
            x = ca.vec(Rm)
            MX = Rm
            arg = Rm
        else:
            S = G(self.source)
            x = ca.SX.sym("x", S.n_param)
            X = S.elem(x)
            MX = ca.SX(X.to_Matrix())
            arg = X
        with MatrixCut(("Quat", "Euler")) as mc:
            Y = getattr(T, self.meth)(arg)
        if len(mc.calls) != 1:
            raise StructureChanged(f"{self.name}: expected exactly one leaf from_Matrix call, saw {len(mc.calls)}")
        grp, A, P = mc.calls[0]
        leaf = "Quat" if grp.n_param == 4 else "Euler"
        if leaf == "Quat" and self.target in ("Mrp", "Dcm"):
            ref = ca.SX(T.from_Quat(G("Quat").elem(P)).param)
        elif (leaf == "Quat") == (self.target == "Quat") and (leaf == "Euler") == (self.target == "EulerB321"):
            ref = P
        else:
            raise StructureChanged(f"{self.name}: unexpected leaf {leaf} for target {self.target}")
        return ca.Function(self.name.replace(":", "_").replace(".", "_"), [x, P], [MX, A, ca.SX(Y.param), ref])

    def make_ctx(self):
        ctx = Ctx()
        if self.source == "Matrix":
            u = [Val.var(f"u{i}") for i in range(3)]
            xin = V.vec(quat_to_R(s3_chart(u[0], u[1], u[2])))
            self.lats = []
        else:
            g = group_input(ctx, "SO3" + self.source, "X")
            xin = g.params
            self.lats = g.lats
        npar = 4 if self.target != "EulerB321" else 3
        P = [Val.var(f"P{i}") for i in range(npar)]
        ctx.aux = {}
        return ctx, [xin, P]

    def env_fix(self, env):
        for L in self.lats:
            L.concretize(env)

    def claims(self, outs, ins, aux):
        MX, A, py, ref = outs
        cl = entry_claims("leaf_gets_M(X)", A, MX)
        for i in range(len(py)):
            cl.append(Claim(f"built_from_leaf[{i}]", py[i][0], ref[i][0]))
        return cl


class EulerLeaf(Harness):
    """Euler.from_Matrix on canonical angles (pitch outside the band): returns the same angles (hence same
    matrix), pitch in [-pi/2, pi/2]"""
    timeout_ms = 60000
    defined = "prove"

    def __init__(self):
        self.name = "C07:Euler.from_Matrix"

    def build(self):
        T = G("EulerB321")
        x = ca.SX.sym("x", 3)
        X = T.elem(x)
        MX = ca.SX(X.to_Matrix())
        Y = T.from_Matrix(MX)
        return ca.Function("euler_from_matrix", [x], [MX, ca.SX(Y.to_Matrix()), ca.SX(Y.param)])

    def make_ctx(self):
        ctx = Ctx()
        g = group_input(ctx, "SO3EulerB321", "X")
        self.lats = g.lats
        ctx.aux = {"pi": ctx.pi()}
        return ctx, [g.params]

    def env_fix(self, env):
        for L in self.lats:
            L.concretize(env)
        env["pi"] = mp.pi

    def claims(self, outs, ins, aux):
        MX, MY, py = outs
        cl = entry_claims("same_rotation", MY, MX)
        cl += [Claim(f"same_angles[{i}]", py[i][0], ins[0][i]) for i in range(3)]
        cl.append(Claim("pitch_le", py[1][0], aux["pi"] / 2, "le"))
        cl.append(Claim("pitch_ge", py[1][0], -aux["pi"] / 2, "ge"))
        return cl


class EulerPole(Harness):
    """exactly at a gimbal pole (pitch = +-pi/2, any yaw and roll): the extraction takes its pole branch and returns an
    element with the same rotation matrix (yaw := yaw -+ roll, roll := 0), pitch = +-pi/2"""
    timeout_ms = 60000
    defined = "prove"

    def __init__(self, sign):
        self.sign = sign
        self.name = "C07:Euler.from_Matrix:pole" + ("+" if sign > 0 else "-")

    def build(self):
        T = G("EulerB321")
        R = ca.SX.sym("R", 3, 3)
        Y = T.from_Matrix(R)
        return ca.Function("euler_pole", [ca.vec(R)], [ca.SX(Y.to_Matrix()), ca.SX(Y.param)])

    def make_ctx(self):
        from ..oracles import Lattice, rotx, roty, rotz
        from ..enc import Angle
        ctx = Ctx()
        Lp = Lattice(ctx, "psiX", "half", positive=False)
        Lf = Lattice(ctx, "phiX", "half", positive=False)
        self.lats = [Lp, Lf]
        pi = ctx.pi()
        sg = self.sign
        ctx.angles.append(Angle(pi / 2 * sg, sin=Val(sg), cos=Val(0), flags={"asin"}, name="pole"))
        R = V.mat_mul(V.mat_mul(rotz(Lp.s, Lp.c), roty(Val(sg), Val(0))), rotx(Lf.s, Lf.c))
        ctx.aux = {"R": R, "pi": pi}
        return ctx, [V.vec(R)]

    def env_fix(self, env):
        for L in self.lats:
            L.concretize(env)
        env["pi"] = mp.pi

    def claims(self, outs, ins, aux):
        MY, py = outs
        cl = entry_claims("same_rotation", MY, aux["R"])
        half = aux["pi"] / 2 if isinstance(aux["pi"], Val) else mp.pi / 2
        cl.append(Claim("pitch_at_pole", py[1][0], half * self.sign))
        return cl


class Shadow(Harness):
    """shadow_if_necessary never changes the rotation and returns |r| <= 1"""
    timeout_ms = 60000
    defined = "prove"

    def __init__(self):
        self.name = "C07:Mrp.shadow_if_necessary"

    def build(self):
        T = G("Mrp")
        r = ca.SX.sym("r", 3)
        X = T.elem(r)
        Y = T.elem(r)
        T.shadow_if_necessary(Y)
        return ca.Function("shadow", [r], [ca.SX(X.to_Matrix()), ca.SX(Y.to_Matrix()), ca.SX(Y.param)])

    def make_ctx(self):
        ctx = Ctx()
        ctx.aux = {}
        return ctx, [[Val.var(f"r{i}") for i in range(3)]]

    def claims(self, outs, ins, aux):
        MX, MY, py = outs
        return entry_claims("same_rotation", MY, MX) + valid_claims("Mrp", "valid", py, MY)


def all_harnesses(tier):
    hs = []
    # direct conversions
    hs += [Direct("Dcm", "Quat"), Direct("Dcm", "Quat", -1), Direct("Dcm", "Mrp"), Direct("Quat", "Mrp"),
           Direct("Mrp", "Quat"), Direct("Mrp", "Quat", -1)]
    # leaves
    hs += [FromMatrixLeaf(1), FromMatrixLeaf(-1), EulerLeaf(), EulerPole(1), EulerPole(-1), Shadow()]
    # composites (target, source)
    for t, s in [("Dcm", "EulerB321"), ("EulerB321", "Dcm"), ("EulerB321", "Quat"), ("EulerB321", "Mrp"),
                 ("Quat", "Dcm"), ("Quat", "EulerB321"), ("Mrp", "Dcm"), ("Mrp", "EulerB321"),
                 ("Mrp", "Matrix")]:
        hs.append(Composite(t, s))
    return hs


def get_harness(name, tier="quick"):
    for h in all_harnesses(tier):
        if h.name == name:
            return h
    raise KeyError(name)


def jobs(tier, seed):
    return harness_jobs(__name__, all_harnesses(tier), seed, tier)
