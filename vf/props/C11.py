"""C11 - each attitude-estimator step keeps the state valid and the covariance consistent.  PARTIAL (level: other).

Decided (for all inputs of the stated cells):
  * initialize: whenever the error code is 0 the matrix handed to SO3Mrp.from_Matrix is exactly the attitude C that
    produced the gravity / field measurements, for every C (S^3 chart), declination, field direction and magnitudes
    (modular, see InitR0); x0 is shadow_if_necessary(from_Matrix(R0)) (QF_UF); from_Matrix / from_Quat / shadow / exp
    are the C07 / C02 lemmas, re-discharged here;
  * an accelerometer or magnetometer correction that reports a non-zero error code returns state and covariance factor
    unchanged, for every gate (ITE + uninterpreted-function encoding, `rejection_gate`), plus the arithmetic cells of the
    accelerometer magnitude gate (`rejection:accel`);
  * predict: the returned MRP is the real shadow switch applied to the RK4 step (QF_UF) and hence has norm <= 1
    (shadow lemma, re-discharged), the bias is unchanged, W1 is structurally lower triangular, and the MRP step agrees with the exact flow of r' = B(r)(omega - b) to fourth order in dt
    (h-derivatives at dt = 0 equal the Lie derivatives of the real kinematic Jacobian up to order 4);
NOT decided: finiteness of the covariance step for every well-conditioned W, and the
covariance-decrease contract of an accepted correction (the 6-state symbolic QR is out of reach; the underlying
identities are C10's, for n_x <= 3)."""
from __future__ import annotations
from fractions import Fraction
import casadi as ca
import mpmath as mp
import z3

from ..harness import Harness, Claim, HarnessError, StructureChanged
from ..val import Val
from .. import val as V
from ..enc import Ctx
from ..runner import run_harness_job, harness_jobs

LEVEL = "other"
TRUSTED = ["CasADi SX construction, AD and instruction API", "IR->SMT encoder (validated against CasADi's VM on every run)",
           "z3 5.1.0 nlsat"]
ASSUMPTIONS = ["real arithmetic ('bit-for-bit' is decided as equality over the reals; 0 + (-0.0) is not distinguished)",
               "fourth-order claim: |r| < 1 so that the shadow switch is inactive around dt = 0; constants within 2 ulp of p/q "
               "are read as p/q (rk4's 1/6)",
               "initialize: the field direction has a horizontal component (|inclination| < pi/2) and g, |B| > 0; the link between "
               "the declination and its (sin, cos) lives in the re-discharged exp lemma (C02)",
               "covariance finiteness and P+ <= P for accepted corrections are NOT decided"]
BOUNDS = {"cells": "all cells of the gating logic that lead to rejection; both shadow cells of predict; the error-code-0 cells of initialize"}
EXPLANATION = ("step contracts that are reachable with the instruction-list encoding: rejection leaves (x, W) unchanged, the "
               "predicted MRP stays in the unit ball and is a fourth-order step of the real kinematics; the remaining clauses of "
               "the property are listed as not decided")


def eqs():
    import cyecca.estimate.attitude.algorithms.mrp as m
    return m.eqs()


def lower_vals(name, n):
    nz = []
    for j in range(n):
        for i in range(j, n):
            nz.append(Val.var(f"{name}{i}{j}"))
    return nz


class Rejection(Harness):
    timeout_ms = 60000
    max_cells = 64

    def __init__(self, which, side):
        self.which, self.side = which, side
        self.name = f"C11:rejection:{which}:{side}"

    def build(self):
        e = eqs()
        x = ca.SX.sym("x", 6)
        W = ca.SX.sym("W", ca.Sparsity.lower(6))
        y = ca.SX.sym("y", 3)
        if self.which == "accel":
            f = e["correct_accel"]
            g = ca.SX.sym("g")
            w = ca.SX.sym("w", 3)
            p = ca.SX.sym("p", 3)
            o = f(x, W, y, g, w, p[0], p[1], p[2])
            return ca.Function("rej_a", [x, W, y, g, w, p], [o[5], o[0], o[1]])
        f = e["correct_mag"]
        p = ca.SX.sym("p", 3)
        o = f(x, W, y, p[0], p[1], p[2])
        return ca.Function("rej_m", [x, W, y, p], [o[5], o[0], o[1]])

    def make_ctx(self):
        ctx = Ctx()
        x = [Val.var(f"x{i}") for i in range(6)]
        W = lower_vals("W", 6)
        y = [Val.var(f"y{i}") for i in range(3)]
        ctx.aux = dict(x=x, W=W)
        yy = V.dot(y, y)
        if self.which == "accel":
            g = Val.var("g")
            if self.side == "too_large":
                ctx.assume(V.ge(g, 0), V.gt(yy, (g + 1) * (g + 1)))
            else:
                ctx.assume(V.gt(g, 1), V.lt(yy, (g - 1) * (g - 1)))
            return ctx, [x, W, y, [g], [Val.var(f"w{i}") for i in range(3)], [Val.var(f"p{i}") for i in range(3)]]
        p = [Val.var(f"p{i}") for i in range(3)]
        ctx.assume(p[1].num_term() > 0)
        if self.side == "tilt_uncertain":
            # W00^2 + W11^2 > 0.1^2  => error code 2 (or 1): never accepted
            ctx.assume(V.gt(W[0] * W[0] + W[6] * W[6], Val(Fraction(1, 100)) + Val(Fraction(1, 10 ** 6))))
        ctx.light_feasibility = True
        return ctx, [x, W, y, p]

    def cell_filter(self, cell):
        # only cells in which the step reports an error are in the claim
        code = cell.outs[0][0]
        return code.is_const() and code.c != 0

    def claims(self, outs, ins, aux):
        code, xo, Wo = outs
        cl = [Claim("code_nonzero", code[0][0], 0, "ne")]
        for i in range(6):
            cl.append(Claim(f"x_unchanged[{i}]", xo[i][0], ins[0][i]))
        k = 0
        for j in range(6):
            for i in range(6):
                if i >= j:
                    cl.append(Claim(f"W_unchanged[{i},{j}]", Wo[i][j], ins[1][k]))
                    k += 1
                else:
                    cl.append(Claim(f"W_upper_zero[{i},{j}]", Wo[i][j], 0))
        return cl


class PredictNorm(Harness):
    """MRP part of predict: |r1|^2 <= 1 on both shadow cells; bias unchanged; W1 structurally lower triangular"""
    timeout_ms = 60000

    def __init__(self):
        self.name = "C11:predict:norm"

    def build(self):
        f = eqs()["predict"]
        if [f.name_in(i) for i in range(f.n_in())] != ["t", "x", "W", "omega_m", "std_gyro", "sn_gyro_rw", "dt"]:
            raise StructureChanged("predict signature changed")
        if not f.sparsity_out(1).is_tril():
            raise TypeError("predict: W1 is not structurally lower triangular")
        t, dt = ca.SX.sym("t"), ca.SX.sym("dt")
        x, w = ca.SX.sym("x", 6), ca.SX.sym("w", 3)
        W = ca.SX.sym("W", ca.Sparsity.lower(6))
        p = ca.SX.sym("p", 2)
        x1 = f(t, x, W, w, p[0], p[1], dt)[0]
        return ca.Function("pn", [t, x, w, p, dt], [x1])

    def make_ctx(self):
        ctx = Ctx()
        ctx.snap_constants = True
        ctx.light_feasibility = True
        ctx.aux = {}
        return ctx, [[Val.var("t")], [Val.var(f"x{i}") for i in range(6)], [Val.var(f"w{i}") for i in range(3)],
                     [Val.var("p0"), Val.var("p1")], [Val.var("dt")]]

    def claims(self, outs, ins, aux):
        x1 = [outs[0][i][0] for i in range(6)]
        cl = [Claim("mrp_in_unit_ball", V.dot(x1[:3], x1[:3]), 1, "le")]
        cl += [Claim(f"bias_unchanged[{i}]", x1[3 + i], ins[1][3 + i]) for i in range(3)]
        return cl


class PredictOrder(Harness):
    """d^k/d dt^k of the predicted MRP at dt = 0 equals the k-th Lie derivative of r' = B(r)(omega - b), k = 0..4"""
    timeout_ms = 120000

    def __init__(self):
        self.name = "C11:predict:fourth_order"
        self.shards = 5

    def build(self):
        import cyecca.lie as lie
        f = eqs()["predict"]
        t, dt = ca.SX.sym("t"), ca.SX.sym("dt")
        x, w = ca.SX.sym("x", 6), ca.SX.sym("w", 3)
        W = ca.SX.sym("W", ca.Sparsity.lower(6))
        r1 = f(t, x, W, w, 0, 0, dt)[0][:3]
        r = x[:3]
        fld = lie.SO3Mrp.right_jacobian(lie.SO3Mrp.elem(r)) @ (w - x[3:6])
        outs = []
        d = r1
        Dk = r
        for k in range(5):
            outs.append(ca.substitute(d, dt, 0))
            outs.append(Dk)
            d = ca.jacobian(d, dt)
            Dk = ca.jacobian(Dk, r) @ fld if k > 0 else fld
        return ca.Function("po", [t, x, w, dt], outs)

    def make_ctx(self):
        ctx = Ctx()
        ctx.snap_constants = True
        x = [Val.var(f"x{i}") for i in range(6)]
        ctx.assume(V.lt(V.dot(x[:3], x[:3]), 1))
        ctx.aux = {}
        return ctx, [[Val.var("t")], x, [Val.var(f"w{i}") for i in range(3)], [Val.var("dt")]]

    def claims(self, outs, ins, aux):
        cl = []
        for k in range(5):
            for i in range(3):
                cl.append(Claim(f"order[k={k}][{i}]", outs[2 * k][i][0], outs[2 * k + 1][i][0]))
        return cl


def job_predict_shadow():
    """predict returns shadow_if_necessary(rk4 step) as its MRP (QF_UF congruence with the real shadow switch applied to
    the recorded pre-switch value); |shadow(r)| <= 1 for every r is the C07 lemma, re-discharged in this check.
    Also: the bias part is returned unchanged and W1 is structurally lower triangular."""
    import time
    import cyecca.lie.group_so3 as g
    import cyecca.lie as lie
    from ..ir import IR
    from ..uf import UFDomain, uf_outputs, uf_equiv
    t0 = time.time()
    name = "C11:predict:shadow_applied"
    stats = dict(name=name, cells=1, queries=0, solver_time=0.0, functions=[], resolutions={})
    rec = []
    orig = g.SO3MrpLieGroup.shadow_if_necessary

    def spy(self_, arg):
        rec.append(ca.SX(arg.param))
        return orig(self_, arg)
    g.SO3MrpLieGroup.shadow_if_necessary = spy
    try:
        import cyecca.estimate.attitude.algorithms.mrp as m
        f = m.predict()
    except Exception as e:
        import traceback
        return dict(records=[dict(label="build", status="crash", harness=name, detail=f"{type(e).__name__}: {e}",
                                  trace=traceback.format_exc()[-1500:])], stats=stats)
    finally:
        g.SO3MrpLieGroup.shadow_if_necessary = orig
    recs = []
    if not f.sparsity_out(1).is_tril():
        recs.append(dict(label="W1_lower_triangular", status="refuted", harness=name, replay=dict(confirmed=True, note=str(f.sparsity_out(1)))))
    else:
        recs.append(dict(label="W1_lower_triangular", status="proved", harness=name, t=0.0, cell="structural"))
    if len(rec) != 1:
        recs.append(dict(label="shadow_called_once", status="refuted", harness=name,
                         replay=dict(confirmed=True, note=f"shadow_if_necessary called {len(rec)} times while deriving predict")))
        return dict(records=recs, stats=stats)
    si = f.sx_in()
    x1 = f(*si)[0]
    X = lie.SO3Mrp.elem(rec[0])
    lie.SO3Mrp.shadow_if_necessary(X)
    gfun = ca.Function("pred_shadow", si, [ca.vertcat(x1[:3], x1[3:6]), ca.vertcat(X.param, si[1][3:6])])
    ir = IR(gfun)
    stats["functions"].append(dict(function="predict", instructions=ir.n_instr))
    D = UFDomain()
    outs = uf_outputs(ir, D)
    labels = [f"mrp_is_shadow_of_step[{i}]" for i in range(3)] + [f"bias_unchanged[{i}]" for i in range(3)]
    for (k, r), lab in zip(uf_equiv(outs[0], outs[1], D), labels):
        st = {"unsat": "proved", "sat": "refuted", "unknown": "unknown"}[r]
        rc = dict(label=lab, harness=name, cell="uf", t=0.0, status=st)
        if st == "refuted":
            import random
            from ..harness import _casadi_eval, _same
            rng = random.Random(k)
            diff = None
            for _ in range(100):
                pt = [[rng.uniform(-1, 1) for _ in range(ir.in_nnz[i])] for i in range(ir.n_in)]
                o = _casadi_eval(gfun, pt)
                if not _same(o[0][k][0], o[1][k][0], 1e-12):
                    diff = dict(inputs=pt, lhs=o[0][k][0], rhs=o[1][k][0])
                    break
            rc["replay"] = dict(confirmed=diff is not None, **(diff or {"reason": "not congruent but numerically equal"}))
            if diff is None:
                rc["status"] = "spurious"
        recs.append(rc)
        stats["queries"] += 1
    stats["wall"] = time.time() - t0
    return dict(records=recs, stats=stats)


class InitR0(Harness):
    """initialize: for the measurements g_b = g C^T (0,0,-1), B_b = |B| C^T B_n produced by ANY attitude C (S^3 chart),
    any declination and any field direction with a horizontal component along the declination, the matrix handed to
    SO3Mrp.from_Matrix is exactly C whenever the error code is 0.
    Modular: (a) the declination correction exp(-decl n3_b).to_Matrix() is cut - the harness checks that the argument of
    exp is -decl * (third row of C) and binds the result to the Rodrigues rotation about that unit axis (C02's theorem
    M(exp x) = expm(x^), re-discharged for SO3Mrp); (b) the second cross product is evaluated at (row 2, row 3) of C
    once its real arguments are proved equal to them; from_Matrix and the shadow switch are the C07 lemmas
    (re-discharged); `x0 = shadow(from_Matrix(R0))` is the QF_UF job below."""
    timeout_ms = 120000
    max_cells = 64
    name = "C11:initialize:R0"

    def _derive(self):
        import casadi
        import cyecca.estimate.attitude.algorithms.mrp as m
        import cyecca.lie.group_so3 as g
        rec = dict(R0=[], v=[], cross=[])
        E = ca.SX.sym("cutE", 3, 3)
        P2, P3 = ca.SX.sym("cutP2", 3), ca.SX.sym("cutP3", 3)
        o_fm = g.SO3MrpLieGroup.from_Matrix
        o_exp = g.SO3MrpLieGroup.exp
        o_cross = casadi.cross

        def names(x):
            return {v.name() for v in ca.symvar(ca.SX(x))}

        def fm(self_, arg):
            rec["R0"].append(ca.SX(arg))
            return o_fm(self_, arg)

        def exp(self_, arg):
            if any(n.startswith("g_b") for n in names(arg.param)):
                rec["v"].append(ca.SX(arg.param))
                return g.SO3Dcm.from_Matrix(E)
            return o_exp(self_, arg)

        def cross(a, b, *k):
            if any(n.startswith("cutE") for n in names(a)):
                rec["cross"].append((ca.SX(a), ca.SX(b)))
                return o_cross(P2, P3, *k)
            return o_cross(a, b, *k)
        g.SO3MrpLieGroup.from_Matrix, g.SO3MrpLieGroup.exp, casadi.cross = fm, exp, cross
        try:
            try:
                m.initialize()
            except RuntimeError:
                pass  # the cut symbols are free: the Function cannot be built; the recordings are what is used
        finally:
            g.SO3MrpLieGroup.from_Matrix, g.SO3MrpLieGroup.exp, casadi.cross = o_fm, o_exp, o_cross
        if (len(rec["R0"]), len(rec["v"]), len(rec["cross"])) != (1, 1, 1):
            raise StructureChanged(f"initialize: unexpected structure (from_Matrix x{len(rec['R0'])}, exp of a gravity-dependent "
                               f"vector x{len(rec['v'])}, cross of the corrected east vector x{len(rec['cross'])})")
        R0 = rec["R0"][0]
        sv = {v.name(): v for v in ca.symvar(ca.vertcat(ca.vec(R0), rec["v"][0]))}
        try:
            g_b = ca.vertcat(*[sv[f"g_b_{i}"] for i in range(3)])
            B_b = ca.vertcat(*[sv[f"B_b_{i}"] for i in range(3)])
        except KeyError as e:
            raise StructureChanged(f"initialize: input symbol {e} not found")
        f_real = m.initialize()
        ret = f_real(g_b, B_b, m.mag_decl)[1]
        return ca.Function("init_obs", [g_b, B_b, m.mag_decl, ca.vec(E), P2, P3],
                           [R0, ret, rec["v"][0], rec["cross"][0][0], rec["cross"][0][1]])

    def build(self):
        return self._derive()

    def make_ctx(self):
        from ..oracles import s3_chart, quat_to_R, weier, rot_axis_angle
        ctx = Ctx()
        ctx.light_feasibility = True
        ctx.poly_first = True  # norms of chart-parametrised vectors are polynomial identities: expand before asking z3
        u = [Val.var(f"u{i}") for i in range(3)]
        C = quat_to_R(s3_chart(*u))  # C_nb: v_n = C v_b ; rows = navigation axes in body coordinates
        g = Val.var("g")
        Bs = Val.var("Bs")
        decl = Val.var("decl")
        ctx.assume(g.num_term() > 0, Bs.num_term() > 0)
        sd, cd = weier(Val.var("decl_u"))  # (sin, cos) of the declination; their link to `decl` is inside the exp lemma
        w = Val.var("incl_u")  # tan(inclination/2) in (-1, 1): horizontal field component cos(incl) > 0
        ctx.assume(w.num_term() > -1, w.num_term() < 1)
        si, ci = weier(w)
        B_n = [Bs * ci * cd, Bs * ci * sd, Bs * si]
        g_b = [-g * C[2][j] for j in range(3)]
        B_b = [C[0][j] * B_n[0] + C[1][j] * B_n[1] + C[2][j] * B_n[2] for j in range(3)]
        ctx.roots += [g, Bs, ci, Bs * ci]
        E = rot_axis_angle(C[2], -sd, cd)  # expm(-decl n3^) for the unit axis n3 = third row of C
        ctx.aux = dict(C=C, decl=decl)
        Ecm = [E[i][j] for j in range(3) for i in range(3)]  # column-major, as ca.vec
        return ctx, [g_b, B_b, [decl], Ecm, list(C[1]), list(C[2])]

    def env_fix(self, env):
        if "decl_u" in env:
            env["decl"] = 2 * mp.atan(env["decl_u"])

    def cell_filter(self, cell):
        code = cell.outs[1][0]
        return code.is_const() and code.c == 0

    def claims(self, outs, ins, aux):
        R0, code, v, a2, a3 = outs
        C = aux["C"]
        cl = [Claim("code_zero", code[0][0], 0)]
        for i in range(3):
            cl.append(Claim(f"exp_argument=-decl*n3[{i}]", v[i][0], -aux["decl"] * C[2][i]))
            cl.append(Claim(f"east=row2(C)[{i}]", a2[i][0], C[1][i]))
            cl.append(Claim(f"down=row3(C)[{i}]", a3[i][0], C[2][i]))
        for i in range(3):
            for j in range(3):
                cl.append(Claim(f"R0=C[{i},{j}]", R0[i][j], C[i][j]))
        return cl


def job_init_structure():
    """initialize returns x0 = [shadow_if_necessary(from_Matrix(R0)); 0] when the error code is 0 and the zero vector
    otherwise (QF_UF congruence with the real from_Matrix and the real shadow switch applied to the recorded matrix)"""
    import time
    import cyecca.lie.group_so3 as g
    import cyecca.lie as lie
    from ..ir import IR
    from ..uf import UFDomain, uf_outputs, uf_equiv
    t0 = time.time()
    name = "C11:initialize:structure"
    stats = dict(name=name, cells=1, queries=0, solver_time=0.0, functions=[], resolutions={})
    rec = []
    orig = g.SO3MrpLieGroup.from_Matrix

    def spy(self_, arg):
        rec.append(ca.SX(arg))
        return orig(self_, arg)
    g.SO3MrpLieGroup.from_Matrix = spy
    try:
        import cyecca.estimate.attitude.algorithms.mrp as m
        f = m.initialize()
    except Exception as e:
        import traceback
        return dict(records=[dict(label="build", status="crash", harness=name, detail=f"{type(e).__name__}: {e}",
                                  trace=traceback.format_exc()[-1500:])], stats=stats)
    finally:
        g.SO3MrpLieGroup.from_Matrix = orig
    recs = []
    if len(rec) != 1:
        recs.append(dict(label="from_Matrix_called_once", status="refuted", harness=name,
                         replay=dict(confirmed=True, note=f"SO3Mrp.from_Matrix called {len(rec)} times while deriving initialize")))
        return dict(records=recs, stats=stats)
    sv = {v.name(): v for v in ca.symvar(rec[0])}
    g_b = ca.vertcat(*[sv[f"g_b_{i}"] for i in range(3)])
    B_b = ca.vertcat(*[sv[f"B_b_{i}"] for i in range(3)])
    x0, ret = f(g_b, B_b, m.mag_decl)
    X = lie.SO3Mrp.from_Matrix(rec[0])
    lie.SO3Mrp.shadow_if_necessary(X)
    want = ca.if_else(ret == 0, ca.vertcat(X.param, ca.SX.zeros(3)), ca.SX.zeros(6))
    gfun = ca.Function("init_struct", [g_b, B_b, m.mag_decl], [x0, want])
    ir = IR(gfun)
    stats["functions"].append(dict(function="initialize", instructions=ir.n_instr))
    D = UFDomain()
    outs = uf_outputs(ir, D)
    labels = [f"x0_is_shadow_of_from_Matrix[{i}]" for i in range(3)] + [f"bias_zero[{i}]" for i in range(3)]
    for (k, r), lab in zip(uf_equiv(outs[0], outs[1], D), labels):
        st = {"unsat": "proved", "sat": "refuted", "unknown": "unknown"}[r]
        rc = dict(label=lab, harness=name, cell="uf", t=0.0, status=st)
        if st == "refuted":
            import random
            from ..harness import _casadi_eval, _same
            rng = random.Random(k)
            diff = None
            for _ in range(200):
                pt = [[rng.uniform(-1, 1) * (9.8 if i == 0 else 1.0) for _ in range(ir.in_nnz[i])] for i in range(ir.n_in)]
                o = _casadi_eval(gfun, pt)
                if not _same(o[0][k][0], o[1][k][0], 1e-12):
                    diff = dict(inputs=pt, lhs=o[0][k][0], rhs=o[1][k][0])
                    break
            rc["replay"] = dict(confirmed=diff is not None, **(diff or {"reason": "not congruent but numerically equal"}))
            if diff is None:
                rc["status"] = "spurious"
        recs.append(rc)
        stats["queries"] += 1
    stats["wall"] = time.time() - t0
    return dict(records=recs, stats=stats)


def job_rejection_gate(which):
    """a correction that reports a non-zero error code returns (x, W) unchanged, for EVERY gate of the step: the real
    function is encoded with if_else as ITE and every transcendental / square root uninterpreted; the claim
    code != 0 -> (x_out, W_out) = (x, W) is then a propositional + congruence fact (no arithmetic axioms are needed,
    so none are given: unsat without them implies unsat with them)."""
    import time
    import random
    from ..ir import IR
    from ..enc import IteDomain, evaluate
    from ..harness import _casadi_eval
    t0 = time.time()
    name = f"C11:rejection_gate:{which}"
    stats = dict(name=name, cells=1, queries=0, solver_time=0.0, functions=[], resolutions={})
    try:
        f = eqs()["correct_" + which]
        si = f.sx_in()
        o = f(*si)
        on = [f.name_out(i) for i in range(f.n_out())]
        inn = [f.name_in(i) for i in range(f.n_in())]
        gfun = ca.Function("rej_" + which, si, [o[on.index("error_code")], o[on.index("x_" + which)], o[on.index("W_" + which)]])
        ir = IR(gfun)
        D = IteDomain()
        ins = [[("r", z3.Real(f"in{i}_{k}")) for k in range(ir.in_nnz[i])] for i in range(ir.n_in)]
        outs = evaluate(ir, ins, D)
    except Exception as e:
        import traceback
        return dict(records=[dict(label="build", status="crash", harness=name, detail=f"{type(e).__name__}: {e}",
                                  trace=traceback.format_exc()[-1500:])], stats=stats)
    stats["functions"].append(dict(function=f.name(), instructions=ir.n_instr))
    code = IteDomain.r(outs[0][0])
    ix, iw = inn.index("x"), inn.index("W")

    def entries(out_idx, in_idx, tag):
        spo, spi = ir.out_sparsity[out_idx], ir.in_sparsity[in_idx]
        pos = {}
        k = 0
        rows, colind = spi.row(), spi.colind()
        for j in range(spi.size2()):
            for idx in range(colind[j], colind[j + 1]):
                pos[(rows[idx], j)] = k
                k += 1
        res = []
        k = 0
        rows, colind = spo.row(), spo.colind()
        for j in range(spo.size2()):
            for idx in range(colind[j], colind[j + 1]):
                rc = (rows[idx], j)
                want = IteDomain.r(ins[in_idx][pos[rc]]) if rc in pos else z3.RealVal(0)
                res.append((f"{tag}_unchanged[{rc[0]},{rc[1]}]", IteDomain.r(outs[out_idx][k]), want, out_idx, k, in_idx, pos.get(rc)))
                k += 1
        return res
    recs = []
    for lab, got, want, oi, ok_, ii, ik in entries(1, ix, "x") + entries(2, iw, "W"):
        s_ = z3.Solver()
        s_.set("timeout", 10000)  # the valid case is propositional + congruence (milliseconds)
        s_.add(code != 0, got != want)
        r = str(s_.check())
        stats["queries"] += 1
        rc = dict(label=lab, harness=name, cell="ite", t=0.0, status={"unsat": "proved", "sat": "refuted"}.get(r, "unknown"))
        if r != "unsat":
            # sat, or unknown (a non-linear model search that did not finish): the verdict is then carried by the replay -
            # replay: search a concrete rejected correction on which the real function changes this entry
            rng = random.Random(ok_ * 7 + oi)
            diff = None
            for _ in range(400):
                pt = []
                for i in range(ir.n_in):
                    n = inn[i]
                    if n == "x":
                        pt.append([rng.uniform(-0.4, 0.4) for _ in range(6)])
                    elif n == "W":
                        big = rng.random() < 0.7
                        Wm = [[((rng.choice([0.2, 0.5]) if (big and a < 2) else 0.03) if a == b else rng.uniform(-0.005, 0.005))
                               for b in range(6)] for a in range(6)]
                        pt.append([Wm[a][b] for b in range(6) for a in range(b, 6)])
                    elif n == "y_b":
                        sc = rng.choice([0.3, 1.0, 2.5]) * (9.8 if which == "accel" else 1.0)
                        v = [rng.uniform(-1, 1) for _ in range(3)]
                        nv = sum(t * t for t in v) ** 0.5
                        pt.append([t * sc / nv for t in v])
                    elif n == "g":
                        pt.append([9.8])
                    elif n in ("std_accel", "std_mag"):
                        pt.append([0.035 if which == "accel" else rng.choice([0.0025, 0.5])])
                    elif n in ("beta_accel_c", "beta_mag_c"):
                        pt.append([9.2])
                    elif n == "std_accel_omega":
                        pt.append([0.0])
                    else:
                        pt.append([rng.uniform(-0.5, 0.5) for _ in range(ir.in_nnz[i])])
                ov = _casadi_eval(gfun, pt)
                cv = ov[0][0][0]
                spo = ir.out_sparsity[oi]
                rr, cc = spo.get_triplet()
                val = ov[oi][rr[ok_]][cc[ok_]]
                wantv = pt[ii][ik] if ik is not None else 0.0
                if cv != 0 and cv == cv and val != wantv:
                    diff = dict(inputs=pt, input_names=inn, error_code=cv, returned=val, prior=wantv)
                    break
            rc["replay"] = dict(confirmed=diff is not None, **(diff or {"reason": "solver model only (uninterpreted functions); no "
                                                                        "concrete rejected correction changing this entry was found"}))
            if diff is None:
                rc["status"] = "spurious" if r == "sat" else "unknown"
            else:
                rc["status"] = "refuted"
        recs.append(rc)
    stats["wall"] = time.time() - t0
    return dict(records=recs, stats=stats)


def lemma_harnesses():
    from . import C07
    # initialize ends in SO3Mrp.from_Matrix (= Quat.from_Matrix + Mrp.from_Quat) followed by the shadow switch
    # and cuts exp(-decl n3).to_Matrix() (C02: M(exp x) = expm(x^) for SO3Mrp)
    from . import C02
    return [C07.Shadow(), C07.FromMatrixLeaf(1), C07.FromMatrixLeaf(-1), C07.Direct("Mrp", "Quat"), C07.Direct("Mrp", "Quat", -1),
            C02.ExpStub("SO3Mrp"), C02.ExpZero("SO3Mrp")]


def all_harnesses(tier):
    # rejection:mag (tilt-uncertainty gate) and the direct norm claim on predict did not finish within the time caps;
    # the norm claim is replaced by "predict applies the real shadow switch" (QF_UF) + the shadow lemma
    return [Rejection("accel", "too_large"), Rejection("accel", "too_small"), PredictOrder(),
            InitR0()]


def get_harness(name, tier="quick"):
    for h in all_harnesses(tier) + lemma_harnesses():
        if h.name == name:
            return h
    raise KeyError(name)


def jobs(tier, seed):
    js = harness_jobs(__name__, all_harnesses(tier) + lemma_harnesses(), seed, tier)
    js.append(("C11:predict:shadow_applied", job_predict_shadow, ()))
    js.append(("C11:initialize:structure", job_init_structure, ()))
    js.append(("C11:rejection_gate:accel", job_rejection_gate, ("accel",)))
    js.append(("C11:rejection_gate:mag", job_rejection_gate, ("mag",)))
    return js
