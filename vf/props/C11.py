"""C11 - each attitude-estimator step keeps the state valid and the covariance consistent.  PARTIAL (level: other).

Decided (for all inputs of the stated cells):
  * an accelerometer correction that reports a non-zero error code returns state and covariance factor unchanged
    (magnitude gate, both sides);
  * predict: the returned MRP is the real shadow switch applied to the RK4 step (QF_UF) and hence has norm <= 1
    (shadow lemma, re-discharged), the bias is unchanged, W1 is structurally lower triangular, and the MRP step agrees with the exact flow of r' = B(r)(omega - b) to fourth order in dt
    (h-derivatives at dt = 0 equal the Lie derivatives of the real kinematic Jacobian up to order 4);
NOT decided: rejection by the magnetometer gates, exactness of `initialize`, finiteness of the covariance step for every well-conditioned W, and the
covariance-decrease contract of an accepted correction (the 6-state symbolic QR is out of reach; the underlying
identities are C10's, for n_x <= 3)."""
from __future__ import annotations
from fractions import Fraction
import casadi as ca
import mpmath as mp
import z3

from ..harness import Harness, Claim, HarnessError
from ..val import Val
from .. import val as V
from ..enc import Ctx
from ..runner import run_harness_job, harness_jobs

LEVEL = "other"
TRUSTED = ["CasADi SX construction, AD and instruction API", "IR->SMT encoder (validated against CasADi's VM on every run)",
           "z3 5.1.0 nlsat"]
ASSUMPTIONS = ["real arithmetic ('bit-for-bit' is decided as equality over the reals; 0 + (-0.0) is not distinguished)",
               "fourth-order claim: |r| < 1 so that the shadow switch is inactive around dt = 0; constants within 2 ulp of p/q "
               "are read as p/q (rk4's 1/6)",
               "initialize exactness, covariance finiteness and P+ <= P for accepted corrections are NOT decided"]
BOUNDS = {"cells": "all cells of the gating logic that lead to rejection; both shadow cells of predict"}
EXPLANATION = ("step contracts that are reachable with the instruction-list encoding: rejection leaves (x, W) unchanged, the "
               "predicted MRP stays in the unit ball and is a fourth-order step of the real kinematics; the remaining clauses of "
               "the property are listed as not decided")


def eqs():
    import cyecca.estimate.attitude.algorithms.mrp as m
    return m.eqs()


def lower_vals(name, n):
    nz = []
    for j in range(n):
        for i in range(j, n):
            nz.append(Val.var(f"{name}{i}{j}"))
    return nz


class Rejection(Harness):
    timeout_ms = 60000
    max_cells = 64

    def __init__(self, which, side):
        self.which, self.side = which, side
        self.name = f"C11:rejection:{which}:{side}"

    def build(self):
        e = eqs()
        x = ca.SX.sym("x", 6)
        W = ca.SX.sym("W", ca.Sparsity.lower(6))
        y = ca.SX.sym("y", 3)
        if self.which == "accel":
            f = e["correct_accel"]
            g = ca.SX.sym("g")
            w = ca.SX.sym("w", 3)
            p = ca.SX.sym("p", 3)
            o = f(x, W, y, g, w, p[0], p[1], p[2])
            return ca.Function("rej_a", [x, W, y, g, w, p], [o[5], o[0], o[1]])
        f = e["correct_mag"]
        p = ca.SX.sym("p", 3)
        o = f(x, W, y, p[0], p[1], p[2])
        return ca.Function("rej_m", [x, W, y, p], [o[5], o[0], o[1]])

    def make_ctx(self):
        ctx = Ctx()
        x = [Val.var(f"x{i}") for i in range(6)]
        W = lower_vals("W", 6)
        y = [Val.var(f"y{i}") for i in range(3)]
        ctx.aux = dict(x=x, W=W)
        yy = V.dot(y, y)
        if self.which == "accel":
            g = Val.var("g")
            if self.side == "too_large":
                ctx.assume(V.ge(g, 0), V.gt(yy, (g + 1) * (g + 1)))
            else:
                ctx.assume(V.gt(g, 1), V.lt(yy, (g - 1) * (g - 1)))
            return ctx, [x, W, y, [g], [Val.var(f"w{i}") for i in range(3)], [Val.var(f"p{i}") for i in range(3)]]
        p = [Val.var(f"p{i}") for i in range(3)]
        ctx.assume(p[1].num_term() > 0)
        if self.side == "tilt_uncertain":
            # W00^2 + W11^2 > 0.1^2  => error code 2 (or 1): never accepted
            ctx.assume(V.gt(W[0] * W[0] + W[6] * W[6], Val(Fraction(1, 100)) + Val(Fraction(1, 10 ** 6))))
        ctx.light_feasibility = True
        return ctx, [x, W, y, p]

    def cell_filter(self, cell):
        # only cells in which the step reports an error are in the claim
        code = cell.outs[0][0]
        return code.is_const() and code.c != 0

    def claims(self, outs, ins, aux):
        code, xo, Wo = outs
        cl = [Claim("code_nonzero", code[0][0], 0, "ne")]
        for i in range(6):
            cl.append(Claim(f"x_unchanged[{i}]", xo[i][0], ins[0][i]))
        k = 0
        for j in range(6):
            for i in range(6):
                if i >= j:
                    cl.append(Claim(f"W_unchanged[{i},{j}]", Wo[i][j], ins[1][k]))
                    k += 1
                else:
                    cl.append(Claim(f"W_upper_zero[{i},{j}]", Wo[i][j], 0))
        return cl


class PredictNorm(Harness):
    """MRP part of predict: |r1|^2 <= 1 on both shadow cells; bias unchanged; W1 structurally lower triangular"""
    timeout_ms = 60000

    def __init__(self):
        self.name = "C11:predict:norm"

    def build(self):
        f = eqs()["predict"]
        if [f.name_in(i) for i in range(f.n_in())] != ["t", "x", "W", "omega_m", "std_gyro", "sn_gyro_rw", "dt"]:
            raise HarnessError("predict signature changed")
        if not f.sparsity_out(1).is_tril():
            raise TypeError("predict: W1 is not structurally lower triangular")
        t, dt = ca.SX.sym("t"), ca.SX.sym("dt")
        x, w = ca.SX.sym("x", 6), ca.SX.sym("w", 3)
        W = ca.SX.sym("W", ca.Sparsity.lower(6))
        p = ca.SX.sym("p", 2)
        x1 = f(t, x, W, w, p[0], p[1], dt)[0]
        return ca.Function("pn", [t, x, w, p, dt], [x1])

    def make_ctx(self):
        ctx = Ctx()
        ctx.snap_constants = True
        ctx.light_feasibility = True
        ctx.aux = {}
        return ctx, [[Val.var("t")], [Val.var(f"x{i}") for i in range(6)], [Val.var(f"w{i}") for i in range(3)],
                     [Val.var("p0"), Val.var("p1")], [Val.var("dt")]]

    def claims(self, outs, ins, aux):
        x1 = [outs[0][i][0] for i in range(6)]
        cl = [Claim("mrp_in_unit_ball", V.dot(x1[:3], x1[:3]), 1, "le")]
        cl += [Claim(f"bias_unchanged[{i}]", x1[3 + i], ins[1][3 + i]) for i in range(3)]
        return cl


class PredictOrder(Harness):
    """d^k/d dt^k of the predicted MRP at dt = 0 equals the k-th Lie derivative of r' = B(r)(omega - b), k = 0..4"""
    timeout_ms = 120000

    def __init__(self):
        self.name = "C11:predict:fourth_order"
        self.shards = 5

    def build(self):
        import cyecca.lie as lie
        f = eqs()["predict"]
        t, dt = ca.SX.sym("t"), ca.SX.sym("dt")
        x, w = ca.SX.sym("x", 6), ca.SX.sym("w", 3)
        W = ca.SX.sym("W", ca.Sparsity.lower(6))
        r1 = f(t, x, W, w, 0, 0, dt)[0][:3]
        r = x[:3]
        fld = lie.SO3Mrp.right_jacobian(lie.SO3Mrp.elem(r)) @ (w - x[3:6])
        outs = []
        d = r1
        Dk = r
        for k in range(5):
            outs.append(ca.substitute(d, dt, 0))
            outs.append(Dk)
            d = ca.jacobian(d, dt)
            Dk = ca.jacobian(Dk, r) @ fld if k > 0 else fld
        return ca.Function("po", [t, x, w, dt], outs)

    def make_ctx(self):
        ctx = Ctx()
        ctx.snap_constants = True
        x = [Val.var(f"x{i}") for i in range(6)]
        ctx.assume(V.lt(V.dot(x[:3], x[:3]), 1))
        ctx.aux = {}
        return ctx, [[Val.var("t")], x, [Val.var(f"w{i}") for i in range(3)], [Val.var("dt")]]

    def claims(self, outs, ins, aux):
        cl = []
        for k in range(5):
            for i in range(3):
                cl.append(Claim(f"order[k={k}][{i}]", outs[2 * k][i][0], outs[2 * k + 1][i][0]))
        return cl


def job_predict_shadow():
    """predict returns shadow_if_necessary(rk4 step) as its MRP (QF_UF congruence with the real shadow switch applied to
    the recorded pre-switch value); |shadow(r)| <= 1 for every r is the C07 lemma, re-discharged in this check.
    Also: the bias part is returned unchanged and W1 is structurally lower triangular."""
    import time
    import cyecca.lie.group_so3 as g
    import cyecca.lie as lie
    from ..ir import IR
    from ..uf import UFDomain, uf_outputs, uf_equiv
    t0 = time.time()
    name = "C11:predict:shadow_applied"
    stats = dict(name=name, cells=1, queries=0, solver_time=0.0, functions=[], resolutions={})
    rec = []
    orig = g.SO3MrpLieGroup.shadow_if_necessary

    def spy(self_, arg):
        rec.append(ca.SX(arg.param))
        return orig(self_, arg)
    g.SO3MrpLieGroup.shadow_if_necessary = spy
    try:
        import cyecca.estimate.attitude.algorithms.mrp as m
        f = m.predict()
    except Exception as e:
        import traceback
        return dict(records=[dict(label="build", status="crash", harness=name, detail=f"{type(e).__name__}: {e}",
                                  trace=traceback.format_exc()[-1500:])], stats=stats)
    finally:
        g.SO3MrpLieGroup.shadow_if_necessary = orig
    recs = []
    if not f.sparsity_out(1).is_tril():
        recs.append(dict(label="W1_lower_triangular", status="refuted", harness=name, replay=dict(confirmed=True, note=str(f.sparsity_out(1)))))
    else:
        recs.append(dict(label="W1_lower_triangular", status="proved", harness=name, t=0.0, cell="structural"))
    if len(rec) != 1:
        recs.append(dict(label="shadow_called_once", status="refuted", harness=name,
                         replay=dict(confirmed=True, note=f"shadow_if_necessary called {len(rec)} times while deriving predict")))
        return dict(records=recs, stats=stats)
    si = f.sx_in()
    x1 = f(*si)[0]
    X = lie.SO3Mrp.elem(rec[0])
    lie.SO3Mrp.shadow_if_necessary(X)
    gfun = ca.Function("pred_shadow", si, [ca.vertcat(x1[:3], x1[3:6]), ca.vertcat(X.param, si[1][3:6])])
    ir = IR(gfun)
    stats["functions"].append(dict(function="predict", instructions=ir.n_instr))
    D = UFDomain()
    outs = uf_outputs(ir, D)
    labels = [f"mrp_is_shadow_of_step[{i}]" for i in range(3)] + [f"bias_unchanged[{i}]" for i in range(3)]
    for (k, r), lab in zip(uf_equiv(outs[0], outs[1], D), labels):
        st = {"unsat": "proved", "sat": "refuted", "unknown": "unknown"}[r]
        rc = dict(label=lab, harness=name, cell="uf", t=0.0, status=st)
        if st == "refuted":
            import random
            from ..harness import _casadi_eval, _same
            rng = random.Random(k)
            diff = None
            for _ in range(100):
                pt = [[rng.uniform(-1, 1) for _ in range(ir.in_nnz[i])] for i in range(ir.n_in)]
                o = _casadi_eval(gfun, pt)
                if not _same(o[0][k][0], o[1][k][0], 1e-12):
                    diff = dict(inputs=pt, lhs=o[0][k][0], rhs=o[1][k][0])
                    break
            rc["replay"] = dict(confirmed=diff is not None, **(diff or {"reason": "not congruent but numerically equal"}))
            if diff is None:
                rc["status"] = "spurious"
        recs.append(rc)
        stats["queries"] += 1
    stats["wall"] = time.time() - t0
    return dict(records=recs, stats=stats)


def lemma_harnesses():
    from . import C07
    return [C07.Shadow()]


def all_harnesses(tier):
    # rejection:mag (tilt-uncertainty gate) and the direct norm claim on predict did not finish within the time caps;
    # the norm claim is replaced by "predict applies the real shadow switch" (QF_UF) + the shadow lemma
    return [Rejection("accel", "too_large"), Rejection("accel", "too_small"), PredictOrder()]


def get_harness(name, tier="quick"):
    for h in all_harnesses(tier) + lemma_harnesses():
        if h.name == name:
            return h
    raise KeyError(name)


def jobs(tier, seed):
    js = harness_jobs(__name__, all_harnesses(tier) + lemma_harnesses(), seed, tier)
    js.append(("C11:predict:shadow_applied", job_predict_shadow, ()))
    return js
