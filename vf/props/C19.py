"""C19 - SymPy <-> CasADi expression conversion preserves meaning.

Programs (expression trees) are enumerated over the supported grammar: one inductive step per constructor
and leaf class + all depth-2 compositions (thorough: a depth-3 sample).  For each program the converter's
output and the source are both translated to SMT terms (ite encoding; transcendental heads uninterpreted)
and asserted different at some point of the common domain: unsat = same value everywhere."""
from __future__ import annotations
import itertools
import time
import random
import traceback
from fractions import Fraction
import casadi as ca
import sympy as sp
import mpmath as mp
import z3

from ..ir import IR
from ..enc import evaluate, IteDomain, MpDomain, Unsupported, Undefined
from ..sympy_smt import SymTranslator
from ..solve import model_to_dict
from ..harness import HarnessError, _casadi_eval
from ..val import Q

LEVEL = "proof"
TRUSTED = ["CasADi SX construction + instruction API", "IR->SMT encoder in ite mode", "SymPy->SMT translator with the standard "
           "mathematical meaning of each node (reference semantics)", "z3 5.1.0"]
ASSUMPTIONS = ["real arithmetic; transcendental functions are uninterpreted (congruence only)",
               "double constants within 2 ulp of p/q (q <= 5040) are read as p/q on both sides (CasADi folds 2/3 to a double)",
               "compared on the common domain: divisors non-zero, sqrt arguments non-negative",
               "a construct the converter rejects with an exception is accepted (the property allows errors, not alteration)"]
BOUNDS = {"remainder": "|a| <= 8 (integer case analysis of round-half-even)", "quick": {"depth": "constructor steps on symbols and on every leaf class + all depth-2 compositions over a reduced leaf set"},
          "thorough": {"depth": "+ depth-3 sample (seeded)"}}
EXPLANATION = "per program: z3 query  source(x) != converted(x)  on the common domain; unsat for every program of the bounded grammar"

x, y = sp.symbols("x y")
fF, gF = sp.Function("f"), sp.Function("g")
F_DICT_CA = {"f": lambda a: 2 * a + 1, "g": lambda a: a * a}
F_REF = lambda D: {"f": lambda a: D.add(D.mul(D.exact(Fraction(2)), a), D.exact(Fraction(1))), "g": lambda a: D.mul(a, a)}

LEAVES = [x, y, sp.Integer(3), sp.Integer(-2), sp.Integer(0), sp.Rational(2, 3), sp.Rational(-5, 7), sp.S.Half,
          sp.Float(2.5), sp.Float(-1.5), sp.Float(0.1), sp.Float(3.0), sp.S.One, sp.S.NegativeOne, sp.S.Zero]
SMALL = [x, y, sp.Integer(3), sp.Rational(2, 3), sp.Float(2.5)]

UNARY = [lambda a: sp.sin(a), lambda a: sp.cos(a), lambda a: sp.tan(a), lambda a: sp.atan(a), lambda a: sp.sqrt(a),
         lambda a: a ** 2, lambda a: a ** -1, lambda a: a ** sp.Rational(3, 2), lambda a: a ** sp.Rational(-1, 2),
         lambda a: a ** 3, lambda a: fF(a), lambda a: gF(a), lambda a: -a]
BINARY = [lambda a, b: a + b, lambda a, b: a * b, lambda a, b: a - b, lambda a, b: a / b, lambda a, b: a ** b]


def s2c_programs(tier, seed):
    progs = []
    seen = set()

    def add(e, **kw):
        try:
            k = (sp.srepr(e), tuple(sorted(kw.items())))
        except Exception:
            return
        # SymPy's automatic simplification can leave irrational numeric factors (sqrt(6), sin(3)) next to symbols;
        # CasADi folds those in double precision, which no exact comparison can follow: outside the bounded grammar
        if not isinstance(e, sp.MatrixBase) and e.free_symbols:
            for sub in sp.preorder_traversal(e):
                if sub.is_number and not (sub.is_Rational or sub.is_Float):
                    return
        if k in seen:
            return
        seen.add(k)
        progs.append((e, kw))
    for l in LEAVES:
        add(l)
    d1 = []
    for u in UNARY:
        for l in LEAVES:
            try:
                e = u(l)
            except Exception:
                continue
            add(e)
            if l in SMALL and getattr(e, "free_symbols", None):
                d1.append(e)
    for b in BINARY:
        for l1 in LEAVES:
            for l2 in (x, y, sp.Float(2.5), sp.Rational(2, 3), sp.Integer(-2)):
                try:
                    e = b(l1, l2)
                except Exception:
                    continue
                add(e)
                if l1 in SMALL and l2 in (x, y):
                    d1.append(e)
    # depth 2
    for u in UNARY:
        for e in d1:
            try:
                add(u(e))
            except Exception:
                pass
    for b in BINARY[:2]:
        for e1 in d1[::3]:
            for e2 in (x, sp.Float(2.5) * y, sp.sin(y)):
                try:
                    add(b(e1, e2))
                except Exception:
                    pass
    # matrices, cse, function dictionary with several entries
    add(sp.Matrix([[x, 1], [-1, sp.Float(0.5) * y]]))
    add(sp.Matrix([[sp.sin(x) + 2.5, 0], [sp.Rational(1, 3), x * y]]))
    for e in (sp.sin(x + y) * sp.cos(x + y) + (x + y) ** 2, (x * y + 1) ** 2 + sp.sqrt(x * y + 1), gF(x) + fF(x),
              fF(gF(x)) + gF(fF(y)),
              # nested common subexpressions (x1 defined through x0)
              sp.sin((x + y) ** 2 + 1) + sp.cos((x + y) ** 2 + 1) + (x + y) ** 2 * (x + y) + (x + y),
              sp.sqrt((x * y + 2) ** 2 + 3) * ((x * y + 2) ** 2 + 3) + (x * y + 2) * sp.sin(x * y + 2)):
        add(e)
        add(e, cse=True)
    if tier == "thorough":
        rng = random.Random(seed)
        pool = [p for p, _ in progs if not isinstance(p, sp.MatrixBase)]
        for _ in range(400):
            u = rng.choice(UNARY)
            b = rng.choice(BINARY)
            try:
                add(u(b(rng.choice(pool), rng.choice(pool))))
            except Exception:
                pass
    return progs


# ---------------------------------------------------------------------------------------------------------------

def c2s_programs(tier, seed):
    """(name, builder(a, b) -> SX)"""
    P = [
        ("add", lambda a, b: a + b), ("sub", lambda a, b: a - b), ("mul", lambda a, b: a * b), ("div", lambda a, b: a / b),
        ("neg", lambda a, b: -a), ("exp", lambda a, b: ca.exp(a)), ("log", lambda a, b: ca.log(a)),
        ("pow", lambda a, b: a ** b), ("sq", lambda a, b: a ** 2), ("cube", lambda a, b: a ** 3),
        ("constpow_half", lambda a, b: a ** 0.5), ("twice", lambda a, b: 2 * a), ("sqrt", lambda a, b: ca.sqrt(a)),
        ("sin", lambda a, b: ca.sin(a)), ("cos", lambda a, b: ca.cos(a)), ("tan", lambda a, b: ca.tan(a)),
        ("asin", lambda a, b: ca.asin(a)), ("acos", lambda a, b: ca.acos(a)), ("atan", lambda a, b: ca.atan(a)),
        ("lt", lambda a, b: a < b), ("le", lambda a, b: a <= b), ("eq", lambda a, b: ca.eq(a, b)), ("ne", lambda a, b: ca.ne(a, b)),
        ("not", lambda a, b: ca.logic_not(a < b)), ("and", lambda a, b: ca.logic_and(a < b, b < 1)),
        ("or", lambda a, b: ca.logic_or(a < b, b < 1)), ("floor", lambda a, b: ca.floor(a)), ("ceil", lambda a, b: ca.ceil(a)),
        ("fmod_pos", lambda a, b: ca.fmod(a, 3)), ("fmod_neg", lambda a, b: ca.fmod(a, -3)), ("fmod_sym", lambda a, b: ca.fmod(a, b)),
        ("fabs", lambda a, b: ca.fabs(a)), ("sign", lambda a, b: ca.sign(a)),
        ("if_else", lambda a, b: ca.if_else(a < b, a * 2, b - 1)), ("if_else_zero", lambda a, b: ca.if_else(a < 0, a, 0)),
        ("erf", lambda a, b: ca.erf(a)), ("fmin", lambda a, b: ca.fmin(a, b)), ("fmax", lambda a, b: ca.fmax(a, b)),
        ("inv", lambda a, b: 1 / a), ("sinh", lambda a, b: ca.sinh(a)), ("cosh", lambda a, b: ca.cosh(a)),
        ("tanh", lambda a, b: ca.tanh(a)), ("asinh", lambda a, b: ca.asinh(a)), ("acosh", lambda a, b: ca.acosh(a)),
        ("atanh", lambda a, b: ca.atanh(a)), ("atan2", lambda a, b: ca.atan2(a, b)),
        ("const_int", lambda a, b: a + 2.0), ("const_frac", lambda a, b: a * 2.5), ("const_neg", lambda a, b: a - 1.25),
        ("remainder_pos", lambda a, b: ca.remainder(a, 2)), ("remainder_neg", lambda a, b: ca.remainder(a, -2)),
        ("matrix", lambda a, b: ca.vertcat(ca.horzcat(a + b, a * b), ca.horzcat(ca.sin(a), 2.5 * b))),
        ("nested", lambda a, b: ca.if_else(ca.fabs(a) < 1e-3, 1 - a ** 2 / 6, ca.sin(a) / a) + ca.fmax(a, b) * ca.sqrt(b ** 2 + 1)),
        ("copysign", lambda a, b: ca.copysign(a, b)), ("hypot", lambda a, b: ca.hypot(a, b)),
        ("log1p", lambda a, b: ca.log1p(a)), ("expm1", lambda a, b: ca.expm1(a)),
    ]
    return P


def _solve(formulas, tmo=60000):
    s = z3.Solver()
    s.set("timeout", tmo)
    for f in formulas:
        s.add(f)
    r = s.check()
    return str(r), (model_to_dict(s.model()) if r == z3.sat else None)


def _num_sympy(e, env):
    if isinstance(e, bool) or e in (sp.true, sp.false):
        return 1.0 if bool(e) else 0.0
    if isinstance(e, (int, float)):
        return float(e)
    subs = {sp.Symbol(k): sp.Float(str(v), 40) for k, v in env.items()}
    e = e.replace(fF, lambda a: 2 * a + 1).replace(gF, lambda a: a * a)
    v = e.subs(subs)
    if isinstance(v, (sp.Rel, sp.logic.boolalg.Boolean)) or v in (sp.true, sp.false):
        return 1.0 if bool(v) else 0.0
    v = sp.N(v, 30)
    return v


def check_pair(name, source_is, f_ca, sym_expr, f_ref_builder, var_names, stats):
    """compare CasADi function f_ca (inputs = scalars var_names) with SymPy expression/matrix sym_expr"""
    recs = []
    ir = IR(f_ca)
    stats["functions"].append(dict(function=name, instructions=ir.n_instr))
    D = IteDomain()
    D.parity = True
    D.snap = True
    vars_ = {n: z3.Real(n) for n in var_names}
    ins = [[("r", vars_[n])] for n in var_names]
    outs = evaluate(ir, ins, D)
    ca_terms = [IteDomain.r(t) for t in outs[0]]
    tr = SymTranslator(D, {n: ("r", v) for n, v in vars_.items()}, f_ref_builder(D))
    if isinstance(sym_expr, sp.MatrixBase):
        r_, c_ = sym_expr.shape
        entries = [sym_expr[i, j] for j in range(c_) for i in range(r_)]  # column-major like CasADi
    else:
        entries = [sym_expr]
    # CasADi outputs are the structural non-zeros; align with dense entries
    sp_ = ir.out_sparsity[0]
    dense = [None] * (sp_.size1() * sp_.size2())
    k = 0
    rows, colind = sp_.row(), sp_.colind()
    for j in range(sp_.size2()):
        for idx in range(colind[j], colind[j + 1]):
            dense[rows[idx] + sp_.size1() * j] = ca_terms[k]
            k += 1
    if len(dense) != len(entries):
        recs.append(dict(label=f"{name}:shape", status="refuted", harness=name,
                         replay=dict(confirmed=True, note=f"shape mismatch {len(dense)} vs {len(entries)}")))
        return recs
    for k, (ct, se) in enumerate(zip(dense, entries)):
        ct = Q(0) if ct is None else ct
        lab = f"{name}[{k}]"
        t0 = time.time()
        if not var_names or not getattr(se, "free_symbols", None):
            # constant program: CasADi folds it in double precision at construction; decided by evaluation
            # (no quantifier left), compared with SymPy's 30-digit value
            try:
                cav = float(_casadi_eval(f_ca, [[0.0] for _ in var_names])[0][k % sp_.size1()][k // sp_.size1()])
                syv = complex(_num_sympy(se, {}))
                ok = abs(cav - syv.real) <= 1e-12 * (1 + abs(cav)) and abs(syv.imag) < 1e-12
                recs.append(dict(label=lab, harness=name, t=0.0, cell="const", status="proved" if ok else "refuted",
                                 replay=dict(confirmed=not ok, casadi=cav, sympy=str(syv), env={})))
            except Exception as e:
                recs.append(dict(label=lab, harness=name, status="unknown", reason=f"constant evaluation: {e}"))
            continue
        try:
            v = tr.tr(se)
            st = IteDomain.r(v) if v[0] == "r" else z3.If(v[1], Q(1), Q(0))
        except Unsupported as e:
            recs.append(dict(label=lab, status="unknown", harness=name, reason=f"reference translator: {e}"))
            continue
        dom = [d != 0 for d in D.divs] + [a >= 0 for a in D.sqrts]
        if "remainder" in name:
            # round-half-even needs integer case analysis: bounded instance |a| <= 8 (stated)
            dom += [z3.And(v_ >= -8, v_ <= 8) for v_ in vars_.values()]
        res, model = _solve(D.axioms + dom + [ct != st])
        stats["queries"] += 1
        rec = dict(label=lab, harness=name, t=round(time.time() - t0, 3), cell="ite")
        if res == "unsat":
            rec["status"] = "proved"
        elif res == "sat":
            env = {n: mp.mpf(model.get(n, Fraction(0)).numerator) / model.get(n, Fraction(0)).denominator for n in var_names}
            try:
                pt = [[float(env[n])] for n in var_names]
                o = _casadi_eval(f_ca, pt)
                r_ = len(o[0])
                cav = o[0][k % r_][k // r_]  # entries are enumerated column-major on both sides
                syv = complex(_num_sympy(se, {n: float(env[n]) for n in var_names}))
                ok = abs(cav - syv.real) <= 1e-9 * (1 + abs(cav)) and abs(syv.imag) < 1e-12
                rec["replay"] = dict(confirmed=not ok, env={n: float(env[n]) for n in var_names}, casadi=cav, sympy=str(syv))
            except Exception as e:
                rec["replay"] = dict(confirmed=False, reason=f"numeric replay failed: {type(e).__name__}: {e}")
            if not rec["replay"].get("confirmed"):
                # the model may sit on a point where uninterpreted heads happen to coincide numerically (sin(0) = 0*b);
                # the two sides are not provably equal, so look for a concrete input on which the real functions differ
                rng = random.Random(hash(lab) & 0xffff)
                for _ in range(40):
                    env2 = {n: rng.choice([-1, 1]) * rng.uniform(0.2, 1.9) for n in var_names}
                    try:
                        o = _casadi_eval(f_ca, [[env2[n]] for n in var_names])
                        r_ = len(o[0])
                        cav = o[0][k % r_][k // r_]
                        syv = complex(_num_sympy(se, env2))
                        if cav == cav and abs(syv.imag) < 1e-12 and abs(cav - syv.real) > 1e-9 * (1 + abs(cav)):
                            rec["replay"] = dict(confirmed=True, env=env2, casadi=cav, sympy=str(syv),
                                                 note="solver model not reproducible; differing input found by sampling")
                            break
                    except Exception:
                        continue
            rec["status"] = "refuted" if rec["replay"].get("confirmed") else "spurious"
            rec["model"] = {k_: str(v_) for k_, v_ in model.items() if "!" not in k_}
        else:
            rec["status"] = "unknown"
        recs.append(rec)
    return recs


def job_s2c(batch, tier, seed):
    from cyecca.symbolic import sympy_to_casadi
    stats = dict(name=f"C19:s2c#{batch}", cells=0, queries=0, solver_time=0.0, functions=[], resolutions={}, rejected=0)
    recs = []
    progs = s2c_programs(tier, seed)
    nb = N_BATCH
    for idx, (e, kw) in enumerate(progs):
        if idx % nb != batch:
            continue
        name = f"C19:s2c:{idx}:{str(e)[:60]}" + (":cse" if kw.get("cse") else "")
        syms = {}
        try:
            out, syms = sympy_to_casadi(e, f_dict=dict(F_DICT_CA), symbols=syms, cse=kw.get("cse", False))
        except Exception as ex:
            stats["rejected"] += 1
            recs.append(dict(label=f"{name}:rejected", status="proved", harness="C19:s2c", t=0.0,
                             note=f"converter raised {type(ex).__name__}"))
            continue
        try:
            try:
                out = ca.SX(out)
            except Exception:
                # e.g. a complex constant from (-2)**(3/2): outside the real-valued domain of the property
                stats["rejected"] += 1
                recs.append(dict(label=f"{name}:outside_domain", status="proved", harness="C19:s2c", t=0.0,
                                 note="result is not a real CasADi expression"))
                continue
            names = sorted(syms.keys())
            free = [str(s_) for s_ in ca.symvar(out)]
            # symbol table consistency: every free variable of the result is in the table, once
            if sorted(set(free)) != sorted(free) or any(n not in syms for n in free):
                recs.append(dict(label=f"{name}:symbols", status="refuted", harness="C19:s2c",
                                 replay=dict(confirmed=True, note=f"free variables {free} vs symbol table {names}")))
                continue
            f = ca.Function("conv", [syms[n] for n in names], [out])
            recs += check_pair(name, "sympy", f, e, F_REF, names, stats)
        except Undefined as ex:
            recs.append(dict(label=f"{name}:outside_domain", status="proved", harness="C19:s2c", t=0.0, note=str(ex)))
        except (HarnessError, Unsupported) as ex:
            recs.append(dict(label=f"{name}", status="unknown", harness="C19:s2c", reason=f"{type(ex).__name__}: {ex}"))
    for r in recs:
        r["harness"] = "C19:s2c"
    stats["cells"] = len(recs)
    return dict(records=recs, stats=stats)


def job_c2s(batch, tier, seed):
    from cyecca.symbolic import casadi_to_sympy
    stats = dict(name=f"C19:c2s#{batch}", cells=0, queries=0, solver_time=0.0, functions=[], resolutions={}, rejected=0)
    recs = []
    for idx, (nm, build) in enumerate(c2s_programs(tier, seed)):
        if idx % N_BATCH != batch:
            continue
        a, b = ca.SX.sym("a"), ca.SX.sym("b")
        name = f"C19:c2s:{nm}"
        try:
            expr = ca.SX(build(a, b))
        except Exception as ex:
            continue
        try:
            syms = {}
            se = casadi_to_sympy(expr, syms)
        except Exception as ex:
            stats["rejected"] += 1
            recs.append(dict(label=f"{name}:rejected", status="proved", harness="C19:c2s", t=0.0,
                             note=f"converter raised {type(ex).__name__}"))
            continue
        try:
            f = ca.Function("orig", [a, b], [expr])
            recs += check_pair(name, "casadi", f, se, lambda D: {}, ["a", "b"], stats)
        except (HarnessError, Unsupported, Undefined) as ex:
            recs.append(dict(label=f"{name}", status="unknown", harness="C19:c2s", reason=f"{type(ex).__name__}: {ex}"))
    for r in recs:
        r["harness"] = "C19:c2s"
    stats["cells"] = len(recs)
    return dict(records=recs, stats=stats)


N_BATCH = 12


def jobs(tier, seed):
    js = [(f"C19:s2c#{k}", job_s2c, (k, tier, seed)) for k in range(N_BATCH)]
    js += [(f"C19:c2s#{k}", job_c2s, (k, tier, seed)) for k in range(N_BATCH)]
    return js


def custom_replay(rp):
    """re-run the one program the replay file names"""
    label = rp["label"]
    tier = rp.get("tier", "quick")
    kind = "s2c" if ":s2c:" in label else "c2s"
    out = []
    for k in range(N_BATCH):
        res = (job_s2c if kind == "s2c" else job_c2s)(k, tier, 0)
        out += [r for r in res["records"] if r["label"] == label]
    bad = any(r["status"] == "refuted" for r in out)
    return bad, dict(records=[{k: r.get(k) for k in ("label", "status", "replay")} for r in out])
