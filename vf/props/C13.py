"""C13 - control allocation yields reachable motor commands and honours feasible demands.

`control_allocation` is piecewise linear in (T, M) with nonlinear positive parameters; it is encoded
with ite (IteDomain) and left to the SMT core (DESIGN.md C13).  Models are rational and are
replayed *exactly* (fractions through the instruction list), because violations may live on thin
sets such as C1 == 0 and C2 == 0."""
from __future__ import annotations
from ..harness import StructureChanged
import time
import random
from fractions import Fraction
import casadi as ca
import z3

from ..ir import IR
from ..enc import evaluate, IteDomain, FracDomain, FloatDomain, Unsupported
from ..val import Q
from ..solve import model_to_dict
from ..harness import _casadi_eval, _same, HarnessError

LEVEL = "proof"
TRUSTED = ["CasADi SX construction + instruction API", "IR->SMT encoder in ite mode (validated against CasADi's VM on every run)",
           "z3 5.1.0 (nonlinear real arithmetic with ite)"]
ASSUMPTIONS = ["real arithmetic (no IEEE rounding)", "F_max, l, Cm, Ct > 0; T, M arbitrary reals"]
BOUNDS = {"inputs": "all reals; parameters all positive reals", "decision nodes": "all (ite encoding, no cell enumeration)"}
EXPLANATION = ("one SMT query per claim over all thrust/moment demands and all positive parameters; counterexamples are "
               "replayed exactly with rational arithmetic through the real instruction list")

NAMES = ["F_max", "l", "Cm", "Ct", "T", "M0", "M1", "M2"]


def get_f():
    import cyecca.models.rdd2 as rdd2
    f = rdd2.derive_control_allocation()["f_alloc"]
    if [f.name_in(i) for i in range(f.n_in())] != ["F_max", "l", "Cm", "Ct", "T", "M"]:
        raise StructureChanged("control_allocation has an unexpected input signature")
    if [f.name_out(i) for i in range(f.n_out())] != ["omega", "Fp_sum", "F_moment", "F_thrust", "M_sat"]:
        raise StructureChanged("control_allocation has an unexpected output signature")
    return f


def minmax(xs, D):
    mn, mx = xs[0], xs[0]
    for x in xs[1:]:
        mn = D["min"](mn, x)
        mx = D["max"](mx, x)
    return mn, mx


Z3OPS = {"min": lambda a, b: z3.If(a <= b, a, b), "max": lambda a, b: z3.If(a >= b, a, b),
         "and": z3.And, "implies": z3.Implies, "le": lambda a, b: a <= b, "ge": lambda a, b: a >= b,
         "eq": lambda a, b: a == b, "lt": lambda a, b: a < b, "gt": lambda a, b: a > b, "or": z3.Or}
PYOPS = {"min": min, "max": max, "and": lambda *a: all(a), "implies": lambda a, b: (not a) or b,
         "le": lambda a, b: a <= b, "ge": lambda a, b: a >= b, "eq": lambda a, b: a == b,
         "lt": lambda a, b: a < b, "gt": lambda a, b: a > b, "or": lambda *a: any(a)}


def clamp(x, lo, hi, D):
    return D["min"](D["max"](x, lo), hi)


def claims(inp, out, D):
    """list of (label, formula) generic over z3 terms / exact numbers.  out: Fp(4), Fm(4), Ft(4), Msat(3)"""
    F_max, l, Cm, Ct, T, M = inp["F_max"], inp["l"], inp["Cm"], inp["Ct"], inp["T"], inp["M"]
    Fp, Fm, Ft, Ms = out["Fp_sum"], out["F_moment"], out["F_thrust"], out["M_sat"]
    cl = []
    for i in range(4):
        cl.append((f"range_lo[{i}]", D["ge"](Fp[i], 0)))
        cl.append((f"range_hi[{i}]", D["le"](Fp[i], F_max)))
    # range-limited demands
    T_sat = clamp(T, 0, 4 * F_max, D)
    M_max = l * 4 * F_max / 2
    for i in range(3):
        cl.append((f"M_sat[{i}]", D["eq"](Ms[i], clamp(M[i], -M_max, M_max, D))))
    # mixer: F_thrust = T_sat/4 on every motor; F_moment = mixer rows applied to M_sat (geometry as shipped)
    sl = [(-1, -1, -1), (1, 1, -1), (1, -1, 1), (-1, 1, 1)]
    for i in range(4):
        cl.append((f"F_thrust[{i}]", D["eq"](Ft[i] * 4, T_sat)))
        a, b, c = sl[i]
        cl.append((f"F_moment[{i}]", D["eq"](Fm[i] * 4 * l * Cm, a * Ms[0] * Cm + b * Ms[1] * Cm + c * Ms[2] * l)))
    Fs = [Fm[i] + Ft[i] for i in range(4)]
    mn, mx = minmax(Fs, D)
    feas = D["and"](D["ge"](mn, 0), D["le"](mx, F_max))
    for i in range(4):
        cl.append((f"joint_feasible[{i}]", D["implies"](feas, D["eq"](Fp[i], Fs[i]))))
    mmn, mmx = minmax(Fm, D)
    mfeas = D["le"](mmx - mmn, F_max)
    tau = clamp(Ft[0], -mmn, F_max - mmx, D)  # least shift of the collective thrust
    for i in range(4):
        cl.append((f"moment_feasible[{i}]", D["implies"](mfeas, D["eq"](Fp[i], Fm[i] + tau))))
    return cl


def _inputs_z3():
    v = {n: z3.Real(n) for n in NAMES}
    inp = dict(F_max=v["F_max"], l=v["l"], Cm=v["Cm"], Ct=v["Ct"], T=v["T"], M=[v["M0"], v["M1"], v["M2"]])
    pre = [v["F_max"] > 0, v["l"] > 0, v["Cm"] > 0, v["Ct"] > 0]
    return v, inp, pre


def exact_replay(f, ir, model):
    """evaluate the real instruction list with Fractions at the model's point; re-evaluate the claims"""
    vals = {n: Fraction(model.get(n, 0)) for n in NAMES}
    ins = [[vals["F_max"]], [vals["l"]], [vals["Cm"]], [vals["Ct"]], [vals["T"]], [vals["M0"], vals["M1"], vals["M2"]]]
    outs = evaluate(ir, ins, FracDomain(), wanted=[1, 2, 3, 4])
    out = dict(Fp_sum=outs[1], F_moment=outs[2], F_thrust=outs[3], M_sat=outs[4])
    inp = dict(F_max=vals["F_max"], l=vals["l"], Cm=vals["Cm"], Ct=vals["Ct"], T=vals["T"],
               M=[vals["M0"], vals["M1"], vals["M2"]])
    res = {lab: bool(ok) for lab, ok in claims(inp, out, PYOPS)}
    # also CasADi's own double evaluation at the (rounded) point, for the record
    fl = _casadi_eval(f, [[float(x) for x in row] for row in ins])
    return res, {k: [str(x) for x in v] for k, v in out.items()}, {k: str(v) for k, v in vals.items()}, fl[1]


def job(seed, tier, shard=(0, 1)):
    t0 = time.time()
    records, stats = [], dict(name="C13:allocation", cells=1, queries=0, solver_time=0.0, functions=[], resolutions={})
    try:
        f = get_f()
    except HarnessError:
        raise
    except Exception as e:
        import traceback
        return dict(records=[dict(label="build", status="crash", harness="C13:allocation",
                                  detail=f"{type(e).__name__}: {e}", trace=traceback.format_exc()[-1500:])], stats=stats)
    ir = IR(f)
    stats["functions"].append(dict(function=f.name(), instructions=ir.n_instr, nodes=len(ir.nodes)))
    # translator validation: float interpreter vs CasADi VM (random + saturating points)
    rng = random.Random(seed)
    for k in range(12):
        pt = [[rng.uniform(0.5, 3)], [rng.uniform(0.1, 1)], [rng.uniform(0.01, 1)], [rng.uniform(1e-6, 1e-3)],
              [rng.uniform(-5, 20)], [rng.uniform(-4, 4) * (10 if k % 3 == 0 else 1) for _ in range(3)]]
        mine = evaluate(ir, pt, FloatDomain())
        theirs = _casadi_eval(f, pt)
        for i in range(ir.n_out):
            M_ = ir.out_dense(i, mine[i], 0.0)
            for r in range(len(M_)):
                for c in range(len(M_[0])):
                    if not _same(M_[r][c], theirs[i][r][c]):
                        raise StructureChanged(f"translator validation failed: output {i}[{r},{c}] {M_[r][c]} vs {theirs[i][r][c]}")
    stats["validated_points"] = 12
    v, inp, pre = _inputs_z3()
    D = IteDomain()
    ins = [[("r", v["F_max"])], [("r", v["l"])], [("r", v["Cm"])], [("r", v["Ct"])], [("r", v["T"])],
           [("r", v["M0"]), ("r", v["M1"]), ("r", v["M2"])]]
    outs = evaluate(ir, ins, D)
    rr = lambda lst: [IteDomain.r(x) for x in lst]
    out = dict(omega=rr(outs[0]), Fp_sum=rr(outs[1]), F_moment=rr(outs[2]), F_thrust=rr(outs[3]), M_sat=rr(outs[4]))
    cl = claims(inp, out, Z3OPS)
    # motor speed defined: the argument of every sqrt is >= 0 and Ct != 0 (omega finite, non-negative)
    for k, t in enumerate(D.sqrts):
        cl.append((f"omega_defined[{k}]", t >= 0))
    for k, om in enumerate(out["omega"]):
        cl.append((f"omega_nonneg[{k}]", om >= 0))
    # vacuity guards: a seeded false claim must be refuted; the precondition must be satisfiable
    s = z3.Solver()
    s.add(*pre, *D.axioms)
    if s.check() != z3.sat:
        records.append(dict(label="reachability", status="vacuous", harness="C13:allocation", cell="all"))
    s = z3.Solver()
    s.set("timeout", 20000)
    s.add(*pre, z3.Not(out["Fp_sum"][0] == out["F_moment"][0] + out["F_thrust"][0]))
    if s.check() != z3.sat:
        raise StructureChanged("seeded mutant obligation (Fp = F_sum for all inputs) was not refuted: encoding is vacuous")
    tmo = 60000 if tier == "quick" else 300000
    for idx, (label, fml) in enumerate(cl):
        if idx % shard[1] != shard[0]:
            continue
        s = z3.Solver()
        s.set("timeout", tmo)
        s.add(*pre, z3.Not(fml))
        if label.startswith("omega_nonneg"):
            s.add(*D.axioms)  # the sqrt nodes' defining constraints are only needed here
        tq = time.time()
        r = s.check()
        dt = time.time() - tq
        stats["queries"] += 1
        stats["solver_time"] += dt
        rec = dict(label=label, harness="C13:allocation", t=round(dt, 3), cell="ite")
        if r == z3.unsat:
            rec["status"] = "proved"
        elif r == z3.sat:
            md = model_to_dict(s.model())
            try:
                res, outv, vals, fl = exact_replay(f, ir, md)
                confirmed = (label in res and not res[label]) or (label not in res)
                rec["replay"] = dict(confirmed=confirmed, exact_inputs=vals, exact_outputs=outv, casadi_Fp_sum=fl,
                                     env={k: float(Fraction(x)) for k, x in vals.items()},
                                     exact_env=vals)
            except Unsupported as e:
                rec["replay"] = dict(confirmed=False, reason=f"exact replay not possible: {e}")
            rec["model"] = {k: str(x) for k, x in md.items() if "!" not in k}
            rec["status"] = "refuted" if rec["replay"].get("confirmed") else "spurious"
        else:
            rec["status"] = "unknown"
            rec["reason"] = s.reason_unknown()
        records.append(rec)
    stats["wall"] = time.time() - t0
    return dict(records=records, stats=stats)


def jobs(tier, seed):
    n = 12
    return [(f"C13:allocation#{k}", job, (seed, tier, (k, n))) for k in range(n)]


class _ReplayShim:
    name = "C13:allocation"


def get_harness(name, tier="quick"):
    return _ReplayShim()


def custom_replay(rp):
    """./check C13 --replay <file>: exact re-evaluation of the recorded rational point on the current tree"""
    f = get_f()
    ir = IR(f)
    env = rp["replay"].get("exact_env") or rp["replay"].get("env")
    model = {k: Fraction(v) for k, v in env.items()}
    res, outv, vals, fl = exact_replay(f, ir, model)
    bad = [k for k, ok in res.items() if not ok]
    return (rp["label"] in bad), dict(failing=bad, outputs=outv, inputs=vals)
