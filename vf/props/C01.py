"""C01 - group axioms under the matrix representation."""
from __future__ import annotations
import casadi as ca
import mpmath as mp
import z3

from ..harness import Harness, Claim, HarnessError, StructureChanged
from ..val import Val
from .. import val as V
from ..enc import Ctx
from ..lieh import groups, family, group_input, n_grp, MatrixCut, so3_of
from ..runner import run_harness_job, harness_jobs
from .C02 import entry_claims

LEVEL = "proof"
TRUSTED = ["CasADi SX construction + instruction API", "IR->SMT encoder (validated against CasADi's VM on every run)",
           "stereographic charts of S^3 / Weierstrass charts of angles; angle-addition formulas for SO(2)",
           "inverse-trig contracts (asin/atan2 of the sine/cosine of a principal-range angle returns it)",
           "every rotation matrix outside the gimbal band has canonical 3-2-1 Euler angles", "z3 5.1.0 nlsat"]
ASSUMPTIONS = ["real arithmetic (no IEEE rounding)", "S^3 chart misses q=(-1,0,0,0) per sign (covered by the other sign)",
               "MRP product denominators non-zero = the stated 360-degree exclusion",
               "Euler pitch within [-pi/2+1e-3, pi/2-1e-3]; psi, phi in (-pi, pi)"]
BOUNDS = {"direct products": "arity <= 3 (SO2xR2, SO3MrpxR3, SE3QuatxSO3DcmxR3)", "matrix entries": "all"}
EXPLANATION = ("group axioms as polynomial/rational identities per matrix entry on rational charts, decided by z3; "
               "matrix-based products (DCM, Euler) are cut at from_Matrix and rest on the right-inverse lemma, "
               "which is its own set of obligations (frommatrix:*)")

SINGLE = ["SO2", "SE2", "R2", "R3", "SO3Quat", "SO3Mrp", "SO3Dcm", "SO3EulerB321", "SE3Quat", "SE3Mrp",
          "SE23Quat", "SE23Mrp"]
PRODUCTS = {"SO2xR2": ["SO2", "R2"], "SO3MrpxR3": ["SO3Mrp", "R3"], "SE3QuatxSO3DcmxR3": ["SE3Quat", "SO3Dcm", "R3"]}


def get_group(gname):
    G = groups()
    if gname in PRODUCTS:
        parts = PRODUCTS[gname]
        g = G[parts[0]]
        for p in parts[1:]:
            g = g * G[p]
        return g
    return G[gname]


def gin(ctx, gname, tag, sign=1):
    if gname in PRODUCTS:
        params, aux, lats = [], {}, []
        for k, p in enumerate(PRODUCTS[gname]):
            g = group_input(ctx, p, f"{tag}f{k}", sign)
            params += g.params
            lats += g.lats
        from ..lieh import GIn
        return GIn(params, aux, lats)
    return group_input(ctx, gname, tag, sign)


def uses_cut(gname):
    return gname == "SO3EulerB321"


class Axioms(Harness):
    timeout_ms = 60000

    def __init__(self, gname, sign=1, part="all"):
        self.gname = gname
        self.sign = sign
        self.part = part
        self.name = f"C01:axioms:{gname}" + ("" if sign == 1 else ":negq") + ("" if part == "all" else f":{part}")

    def _real(self, x, y, z, cut=True):
        G = get_group(self.gname)
        X, Y, Z = G.elem(x), G.elem(y), G.elem(z)
        e = G.identity()
        M = lambda E: ca.SX(E.to_Matrix())
        if cut and uses_cut(self.gname):
            # matrix-based product/inverse: obligations on the matrix handed to from_Matrix
            outs = [M(X), M(Y), M(Z)]

            def cutcall(fn):
                with MatrixCut(("Euler",)) as mc:
                    r = fn()
                if len(mc.calls) != 1 or not ca.is_equal(r.param, mc.calls[0][2], 2):
                    raise StructureChanged("matrix-based operation does not end in a single from_Matrix call")
                return mc.calls[0][1]
            outs.append(cutcall(lambda: X * Y))
            outs.append(cutcall(lambda: X.inverse()))
            outs.append(M(e))
            outs.append(cutcall(lambda: e * X))
            outs.append(cutcall(lambda: X * e))
            return outs
        outs = [M(X), M(Y), M(Z), M(X * Y), M(X.inverse()), M(e), M(e * X), M(X * e)]
        if self.part in ("all", "assoc"):
            outs += [M((X * Y) * Z), M(X * (Y * Z))]
        return outs

    def build(self):
        n = get_group(self.gname).n_param
        x, y, z = ca.SX.sym("x", n), ca.SX.sym("y", n), ca.SX.sym("z", n)
        return ca.Function(f"axioms_{self.gname}", [x, y, z], self._real(x, y, z))

    def build_real(self):
        n = get_group(self.gname).n_param
        x, y, z = ca.SX.sym("x", n), ca.SX.sym("y", n), ca.SX.sym("z", n)
        return ca.Function(f"axioms_{self.gname}", [x, y, z], self._real(x, y, z, cut=False))

    def make_ctx(self):
        ctx = Ctx()
        gx = gin(ctx, self.gname, "X", self.sign)
        gy = gin(ctx, self.gname, "Y")
        gz = gin(ctx, self.gname, "Z")
        self.lats = gx.lats + gy.lats + gz.lats
        # SO(2)-type angles are added by product: register the sums with the addition formulas
        from ..enc import Angle
        byname = {}
        for L in self.lats:
            byname[L.name] = L
        ths = [L for L in self.lats if L.name.startswith("th")]
        # group the 'th' lattices per factor position
        def add_sum(A, B):
            s = A.sin * B.cos + A.cos * B.sin
            c = A.cos * B.cos - A.sin * B.sin
            a = Angle(A.term + B.term, sin=s, cos=c)
            ctx.angles.append(a)
            return a
        if ths and len(ths) == 3:
            X_, Y_, Z_ = [L.A1 for L in ths]
            xy = add_sum(X_, Y_)
            yz = add_sum(Y_, Z_)
            add_sum(xy, Z_)
            add_sum(X_, yz)
        ctx.aux = {}
        return ctx, [gx.params, gy.params, gz.params]

    def env_fix(self, env):
        for L in self.lats:
            L.concretize(env)

    def claims(self, outs, ins, aux):
        MX, MY, MZ, MXY, MXi, Me, MeX, MXe = outs[:8]
        n = len(MX)
        I = V.mat_eye(n)
        cl = []
        cl += entry_claims("hom", MXY, V.mat_mul(MX, MY))
        cl += entry_claims("inv_left", V.mat_mul(MXi, MX), I)
        cl += entry_claims("inv_right", V.mat_mul(MX, MXi), I)
        cl += entry_claims("identity", Me, I)
        cl += entry_claims("neutral_left", MeX, MX)
        cl += entry_claims("neutral_right", MXe, MX)
        if len(outs) > 8:
            cl += entry_claims("assoc", outs[8], outs[9])
        return cl


class FromMatrix(Harness):
    """right inverse: M(from_Matrix(M(X))) = M(X)"""
    timeout_ms = 120000
    max_cells = 200

    def __init__(self, gname, sign=1):
        self.gname = gname
        self.sign = sign
        self.name = f"C01:frommatrix:{gname}" + ("" if sign == 1 else ":negq")

    def build(self):
        G = get_group(self.gname)
        x = ca.SX.sym("x", G.n_param)
        X = G.elem(x)
        MX = ca.SX(X.to_Matrix())
        Xb = G.from_Matrix(MX)
        if not hasattr(Xb, "to_Matrix"):
            raise TypeError(f"from_Matrix returned {type(Xb).__name__}")
        return ca.Function(f"frommatrix_{self.gname}", [x], [MX, ca.SX(Xb.to_Matrix())])

    def make_ctx(self):
        ctx = Ctx()
        g = gin(ctx, self.gname, "X", self.sign)
        self.lats = g.lats
        ctx.aux = {}
        return ctx, [g.params]

    def env_fix(self, env):
        for L in self.lats:
            L.concretize(env)

    def claims(self, outs, ins, aux):
        return entry_claims("right_inverse", outs[1], outs[0])


class FromMatrixMrp(Harness):
    """MRP from_Matrix = from_Quat o Quat.from_Matrix: modular (cut at SO3Quat.from_Matrix).
    (1) the matrix handed to the quaternion extraction is M(X) itself;
    (2) for every unit quaternion P (S^3 chart, sign given) the MRP built from it has matrix R(P).
    Together with the quaternion right-inverse lemma (frommatrix:SO3Quat, unit norm: C07) this
    gives M(from_Matrix(M(X))) = M(X)."""
    timeout_ms = 60000

    def __init__(self, gname, sign=1):
        self.gname = gname
        self.sign = sign
        self.name = f"C01:frommatrix:{gname}:viaquat" + ("" if sign == 1 else ":negq")

    def build(self):
        G = get_group(self.gname)
        x = ca.SX.sym("x", G.n_param)
        X = G.elem(x)
        MX = ca.SX(X.to_Matrix())
        with MatrixCut(("Quat",)) as mc:
            Xb = G.from_Matrix(MX)
        if len(mc.calls) != 1:
            raise StructureChanged("expected exactly one SO3Quat.from_Matrix call inside MRP from_Matrix")
        _, A, P = mc.calls[0]
        return ca.Function(f"frommatrix_{self.gname}", [x, P], [MX, A, ca.SX(Xb.to_Matrix())])

    def make_ctx(self):
        ctx = Ctx()
        g = gin(ctx, self.gname, "X")
        from ..oracles import s3_chart
        u = [Val.var(f"uP{i}") for i in range(3)]
        P = s3_chart(u[0], u[1], u[2], self.sign)
        ctx.aux = {}
        return ctx, [g.params, P]

    def claims(self, outs, ins, aux):
        from ..oracles import quat_to_R
        MX, A, MB = outs
        cl = []
        n = len(MX)
        RP = quat_to_R(ins[1])
        cl += entry_claims("cut_arg", A, V.block(MX, 0, 3, 0, 3))
        for i in range(n):
            for j in range(n):
                rhs = RP[i][j] if (i < 3 and j < 3) else MX[i][j]
                cl.append(Claim(f"via_quat[{i},{j}]", MB[i][j], rhs))
        return cl


def all_harnesses(tier):
    hs = []
    for g in SINGLE + list(PRODUCTS):
        if "Mrp" in g:
            # associativity of MRP-based groups is the stated corollary of the homomorphism law
            # (proved for all of R^3, hence also for intermediate products); the direct 3-element
            # identity has degree > 40 and is not attempted
            hs.append(Axioms(g, part="noassoc"))
        elif g in ("SE3QuatxSO3DcmxR3",) or g.startswith("SE23"):
            hs.append(Axioms(g, part="noassoc"))
            hs.append(AssocOnly(g))
        else:
            hs.append(Axioms(g))
        if g in ("SO3Mrp", "SE23Mrp"):
            hs.append(FromMatrixMrp(g))
            hs.append(FromMatrixMrp(g, sign=-1))
            # the direct (unfactored) from_Matrix composite of the MRP groups was tried in the thorough tier with 12
            # shards: every shard ran into the 2 h job limit, so it is not claimed; the factored form above is
        else:
            hs.append(FromMatrix(g))
    for g in ("SO3Quat", "SE3Quat", "SE23Quat", "SO3Dcm"):
        hs.append(Axioms(g, sign=-1, part="noassoc"))
        hs.append(FromMatrix(g, sign=-1))
    return hs


class AssocOnly(Axioms):
    def __init__(self, gname):
        super().__init__(gname, part="assoc")

    def claims(self, outs, ins, aux):
        return entry_claims("assoc", outs[8], outs[9])


def get_harness(name, tier="quick"):
    for h in all_harnesses(tier):
        if h.name == name:
            return h
    raise KeyError(name)


def jobs(tier, seed):
    return harness_jobs(__name__, all_harnesses(tier), seed, tier)
