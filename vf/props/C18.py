"""C18 - Bezier trajectories meet their boundary conditions; derivatives are exact."""
from __future__ import annotations
import math
from fractions import Fraction
import casadi as ca
import mpmath as mp

from ..harness import Harness, Claim, HarnessError, StructureChanged
from ..val import Val
from .. import val as V
from ..enc import Ctx
from ..runner import run_harness_job, harness_jobs

LEVEL = "proof"
TRUSTED = ["CasADi SX construction, AD (ca.jacobian) and instruction API",
           "IR->SMT encoder (validated against CasADi's VM on every run)", "Bernstein form of a Bezier curve", "z3 5.1.0 nlsat"]
ASSUMPTIONS = ["real arithmetic (no IEEE rounding)", "T != 0 for evaluation/derivatives, T > 0 for the solvers"]
BOUNDS = {"quick": {"degree n": "1..7", "dimension": "1..3 (n<=3), 1 (n>3)", "derivative order": "1..min(n,4)"},
          "thorough": {"degree n": "1..9", "dimension": "1..3", "derivative order": "1..n"}}
EXPLANATION = ("configurations (degree, dimension, derivative order) are enumerated; for each, control points, t and T are "
               "symbolic and every output component is one polynomial/rational identity decided by z3")


def bez():
    import cyecca.models.bezier as b
    return b


def bernstein(P, t, T, n, dim):
    beta = t / T
    out = []
    for d in range(dim):
        acc = 0
        for i in range(n + 1):
            acc = acc + P[d][i] * (math.comb(n, i) * beta ** i * (1 - beta) ** (n - i))
        out.append(acc)
    return out


class Eval(Harness):
    """eval(t) = sum_i P_i B_{i,n}(t/T); eval(0) = P_0; eval(T) = P_n"""
    timeout_ms = 30000

    def __init__(self, n, dim):
        self.n, self.dim = n, dim
        self.name = f"C18:eval:n{n}:d{dim}"

    def build(self):
        B = bez().Bezier
        P = ca.SX.sym("P", self.dim, self.n + 1)
        t, T = ca.SX.sym("t"), ca.SX.sym("T")
        b = B(P, T)
        return ca.Function("bez_eval", [ca.vec(P), t, T], [b.eval(t), b.eval(0), b.eval(T)])

    def make_ctx(self):
        ctx = Ctx()
        self.P = [[Val.var(f"P{d}_{i}") for i in range(self.n + 1)] for d in range(self.dim)]
        t, T = Val.var("t"), Val.var("T")
        ctx.assume(V.ne(T, 0))
        ctx.aux = {"P": self.P}
        flat = [self.P[d][i] for i in range(self.n + 1) for d in range(self.dim)]  # column-major vec
        return ctx, [flat, [t], [T]]

    def claims(self, outs, ins, aux):
        P = aux["P"]
        t, T = ins[1][0], ins[2][0]
        ref = bernstein(P, t, T, self.n, self.dim)
        cl = []
        for d in range(self.dim):
            cl.append(Claim(f"bernstein[{d}]", outs[0][d][0], ref[d]))
            cl.append(Claim(f"start[{d}]", outs[1][d][0], P[d][0]))
            cl.append(Claim(f"end[{d}]", outs[2][d][0], P[d][self.n]))
        return cl


class Deriv(Harness):
    """deriv(m).eval(t) = d^m/dt^m eval(t)  (CasADi AD of the real eval)"""
    timeout_ms = 30000

    def __init__(self, n, m, dim):
        self.n, self.m, self.dim = n, m, dim
        self.name = f"C18:deriv:n{n}:m{m}:d{dim}"

    def build(self):
        B = bez().Bezier
        P = ca.SX.sym("P", self.dim, self.n + 1)
        t, T = ca.SX.sym("t"), ca.SX.sym("T")
        b = B(P, T)
        y = b.eval(t)
        for _ in range(self.m):
            y = ca.jacobian(y, t)
        dm = b.deriv(self.m)
        if dm.n != self.n - self.m:
            raise HarnessError(f"derivative curve of order {self.m} has degree {dm.n}, expected {self.n - self.m}")
        return ca.Function("bez_deriv", [ca.vec(P), t, T], [dm.eval(t), y])

    def make_ctx(self):
        ctx = Ctx()
        P = [[Val.var(f"P{d}_{i}") for i in range(self.n + 1)] for d in range(self.dim)]
        t, T = Val.var("t"), Val.var("T")
        ctx.assume(V.ne(T, 0))
        ctx.aux = {}
        flat = [P[d][i] for i in range(self.n + 1) for d in range(self.dim)]
        return ctx, [flat, [t], [T]]

    def claims(self, outs, ins, aux):
        return [Claim(f"deriv[{d}]", outs[0][d][0], outs[1][d][0]) for d in range(self.dim)]


class Solve(Harness):
    """boundary-value solvers: the curve through the returned control points meets every boundary condition"""
    timeout_ms = 60000
    defined = "prove"

    def __init__(self, deg, Tconst=None):
        self.deg = deg
        self.Tconst = Tconst  # None: T symbolic (> 0); else a fixed rational duration (cheap bounded instance)
        self.name = f"C18:solve:bezier{deg}" + ("" if Tconst is None else f":T={Tconst}")
        self.timeout_ms = 30000

    def build(self):
        b = bez()
        fs = b.derive_bezier7() if self.deg == 7 else b.derive_bezier3()
        solve, traj = fs[f"bezier{self.deg}_solve"], fs[f"bezier{self.deg}_traj"]
        k = 4 if self.deg == 7 else 2
        if solve.size_in(0) != (k, 1) or solve.size_in(1) != (k, 1) or solve.size_out(0) != (1, self.deg + 1):
            raise StructureChanged("unexpected solver signature")
        w0, w1, Ts = ca.SX.sym("w0", k), ca.SX.sym("w1", k), ca.SX.sym("T")
        T = Ts if self.Tconst is None else ca.DM(float(Fraction(self.Tconst))) + 0 * Ts
        P = solve(w0, w1, T)
        r0 = traj(0, T, P)
        r1 = traj(T, T, P)
        return ca.Function(f"solve{self.deg}", [w0, w1, Ts], [r0[:k], r1[:k], P])

    def make_ctx(self):
        ctx = Ctx()
        k = 4 if self.deg == 7 else 2
        T = Val.var("T")
        ctx.assume(T.num_term() > 0)
        ctx.aux = {}
        a = [Val.var(f"a{i}") for i in range(k)]
        b = [Val.var(f"b{i}") for i in range(k)]
        if self.Tconst is not None:
            # CasADi folds the constant duration in double precision: boundary conditions are met up to
            # rounding of the folded constants, so the instance is claimed to 1e-9 on the box |w| <= 100
            for v in a + b:
                ctx.assume(V.le(v, Val(100)), V.ge(v, Val(-100)))
        return ctx, [a, b, [T]]

    def claims(self, outs, ins, aux):
        k = 4 if self.deg == 7 else 2
        names = ["pos", "vel", "acc", "jerk"]
        cl = []
        for i in range(k):
            if self.Tconst is None:
                cl.append(Claim(f"start_{names[i]}", outs[0][i][0], ins[0][i]))
                cl.append(Claim(f"end_{names[i]}", outs[1][i][0], ins[1][i]))
            else:
                numeric = not isinstance(ins[0][i], Val)
                tol = mp.mpf("1e-9") if numeric else Val(Fraction(1, 10 ** 9))
                for nm, o, w in (("start", outs[0][i][0], ins[0][i]), ("end", outs[1][i][0], ins[1][i])):
                    cl.append(Claim(f"{nm}_{names[i]}:le", o - w, tol, "le", tol=0))
                    cl.append(Claim(f"{nm}_{names[i]}:ge", o - w, -tol, "ge", tol=0))
        return cl


class TrajConsistency(Harness):
    """bezierN_traj and bezier_multirotor outputs are successive time derivatives of the position/heading"""
    timeout_ms = 60000

    def __init__(self, which):
        self.which = which
        self.name = f"C18:traj:{which}"

    def build(self):
        b = bez()
        t, T = ca.SX.sym("t"), ca.SX.sym("T")
        if self.which in ("bezier7", "bezier3"):
            deg = int(self.which[-1])
            fs = b.derive_bezier7() if deg == 7 else b.derive_bezier3()
            traj = fs[f"{self.which}_traj"]
            P = ca.SX.sym("P", 1, deg + 1)
            r = traj(t, T, P)
            outs = [r]
            d = r[0]
            ds = []
            for _ in range(r.shape[0] - 1):
                d = ca.jacobian(d, t)
                ds.append(d)
            outs.append(ca.vertcat(*ds))
            self.nP = [deg + 1]
            return ca.Function("traj", [t, T, ca.vec(P)], outs)
        f = b.derive_multirotor()["bezier_multirotor"]
        PX, PY, PZ, Pp = (ca.SX.sym(n, 1, k) for n, k in (("PX", 8), ("PY", 8), ("PZ", 8), ("Pp", 4)))
        x, y, z, psi, dpsi, ddpsi, v, a, j, s = f(t, T, PX, PY, PZ, Pp)
        pos = ca.vertcat(x, y, z)
        D = lambda e: ca.jacobian(e, t)
        outs = [v, D(pos), a, D(D(pos)), j, D(D(D(pos))), s, D(D(D(D(pos)))), dpsi, D(psi), ddpsi, D(D(psi))]
        self.nP = [8, 8, 8, 4]
        return ca.Function("multirotor", [t, T, ca.vec(PX), ca.vec(PY), ca.vec(PZ), ca.vec(Pp)], outs)

    def make_ctx(self):
        ctx = Ctx()
        t, T = Val.var("t"), Val.var("T")
        ctx.assume(V.ne(T, 0))
        ctx.aux = {}
        if self.which in ("bezier7", "bezier3"):
            k = int(self.which[-1]) + 1
            return ctx, [[t], [T], [Val.var(f"P{i}") for i in range(k)]]
        return ctx, [[t], [T]] + [[Val.var(f"P{n}{i}") for i in range(k)] for n, k in (("x", 8), ("y", 8), ("z", 8), ("p", 4))]

    def claims(self, outs, ins, aux):
        cl = []
        if self.which in ("bezier7", "bezier3"):
            r, d = outs
            for i in range(len(d)):
                cl.append(Claim(f"d{i + 1}", r[i + 1][0], d[i][0]))
            return cl
        names = ["v", "a", "j", "s", "psidot", "psiddot"]
        for k in range(6):
            A, Bm = outs[2 * k], outs[2 * k + 1]
            for i in range(len(A)):
                cl.append(Claim(f"{names[k]}[{i}]", A[i][0], Bm[i][0]))
        return cl


def all_harnesses(tier):
    hs = []
    nmax = 7 if tier == "quick" else 9
    for n in range(1, nmax + 1):
        dims = (1, 2, 3) if (n <= 3 or tier == "thorough") else (1,)
        for d in dims:
            hs.append(Eval(n, d))
        mmax = min(n, 4) if tier == "quick" else n
        for m in range(1, mmax + 1):
            for d in ((1, 3) if (n <= 3 or tier == "thorough") else (1,)):
                hs.append(Deriv(n, m, d))
    hs += [Solve(3), Solve(7), Solve(7, "1"), Solve(7, "5/2"), Solve(3, "1"), Solve(3, "1/2"), TrajConsistency("bezier3"), TrajConsistency("bezier7"), TrajConsistency("multirotor")]
    return hs


def get_harness(name, tier="quick"):
    for h in all_harnesses("thorough"):
        if h.name == name:
            return h
    raise KeyError(name)


def jobs(tier, seed):
    return harness_jobs(__name__, all_harnesses(tier), seed, tier)
