"""C14 - attitude set-points are proper rotations aligned with demanded thrust and heading.

Internal vectors of the shipped derive_* functions (demanded force T, heading vector, the matrix handed to the
quaternion extraction) are observed by call-through recording of casadi.norm_2 / casadi.cross and
SO3Quat/SO3Dcm.from_Matrix while the real derive function runs - nothing is altered; an auxiliary CasADi
Function over the shipped function's own input symbols exposes them next to the real outputs."""
from __future__ import annotations
from fractions import Fraction
import casadi as ca
import mpmath as mp
import z3

from ..harness import Harness, Claim, HarnessError
from ..val import Val
from .. import val as V
from ..enc import Ctx
from ..runner import run_harness_job, harness_jobs
from .C02 import entry_claims
from .C07 import ortho_claims

LEVEL = "proof"
TRUSTED = ["CasADi SX construction, AD and instruction API", "IR->SMT encoder (validated against CasADi's VM on every run)",
           "C07 leaf lemma: SO3Quat.from_Matrix of a rotation matrix is a unit quaternion with that matrix (re-discharged here)",
           "z3 5.1.0 nlsat"]
ASSUMPTIONS = ["real arithmetic (no IEEE rounding)", "unit-quaternion claims are modular: the matrix handed to the quaternion "
               "extraction is proved to be a proper rotation on every branch cell, the extraction itself is the leaf lemma",
               "heading = yaw of the camera quaternion as the code extracts it (fresh angle with unit (sin, cos))"]
BOUNDS = {"cells": "saturation of the feedback term, thrust-norm threshold, heading cross-product threshold, Euler gimbal cells "
                   "of the yaw extraction, small-angle cells of the SE_2(3) Jacobian"}
EXPLANATION = "per branch cell: orthonormality/determinant, alignment with the demanded force and heading, rate consistency"


class Spy:
    """call-through recording of selected callables (module attribute or class method)"""

    def __init__(self):
        self.rec = {"norm_2": [], "cross": [], "quat_from_matrix": [], "dcm_from_matrix": []}
        self._undo = []

    def __enter__(self):
        import casadi
        import cyecca.lie.group_so3 as g
        r = self.rec
        o_norm, o_cross = casadi.norm_2, casadi.cross

        def norm_2(x):
            r["norm_2"].append(x)
            return o_norm(x)

        def cross(a, b, *k):
            r["cross"].append((a, b))
            return o_cross(a, b, *k)
        casadi.norm_2, casadi.cross = norm_2, cross
        self._undo.append(lambda: (setattr(casadi, "norm_2", o_norm), setattr(casadi, "cross", o_cross)))
        oq = g.SO3QuatLieGroup.__dict__["from_Matrix"]
        od = g.SO3DcmLieGroup.__dict__["from_Matrix"]

        def qfm(self_, arg):
            r["quat_from_matrix"].append(arg)
            return oq(self_, arg)

        def dfm(self_, arg):
            r["dcm_from_matrix"].append(arg)
            return od(self_, arg)
        g.SO3QuatLieGroup.from_Matrix = qfm
        g.SO3DcmLieGroup.from_Matrix = dfm
        self._undo.append(lambda: (setattr(g.SO3QuatLieGroup, "from_Matrix", oq), setattr(g.SO3DcmLieGroup, "from_Matrix", od)))
        return self

    def __exit__(self, *a):
        for u in self._undo:
            u()
        return False


def const(x, like):
    return Val(Fraction(x)) if isinstance(like, Val) else mp.mpf(x)


class ThrustFrame(Harness):
    """position_control / se23_position_control: Rd = [xB yB zB] handed to the quaternion extraction is a proper
    rotation; zB * nT = T (demanded force) when |T| > 1e-3; yB is perpendicular to the heading vector when the
    cross product is non-degenerate; nT = |T|"""
    timeout_ms = 60000
    max_cells = 200

    def __init__(self, which):
        self.which = which
        self.name = f"C14:thrust_frame:{which}"
        self.shards = 6 if which == "se23_position_control" else 4

    def build(self):
        with Spy() as sp:
            if self.which == "position_control":
                import cyecca.models.rdd2 as r
                f = r.derive_position_control()["position_control"]
            else:
                import cyecca.models.rdd2_loglinear as r
                f = r.derive_outerloop_control()["se23_position_control"]
        rec = sp.rec
        if len(rec["quat_from_matrix"]) != 1 or len(rec["norm_2"]) < 3 or len(rec["cross"]) < 2:
            raise HarnessError(f"{self.which}: unexpected structure (norm_2 x{len(rec['norm_2'])}, cross x{len(rec['cross'])}, "
                               f"from_Matrix x{len(rec['quat_from_matrix'])})")
        Rd = rec["quat_from_matrix"][0]
        T = rec["norm_2"][-2]
        yB_raw = rec["norm_2"][-1]
        zB, xC = rec["cross"][-2]
        si = f.sx_in()
        so = f(*si)
        self.n_in = [s.numel() for s in si]
        return ca.Function(self.which + "_obs", si, [Rd, T, so[0], ca.norm_2(yB_raw), xC, so[1]])

    def make_ctx(self):
        ctx = Ctx()
        ctx.aux = {}
        ins = []
        for k, n in enumerate(self.n_in):
            ins.append([Val.var(f"i{k}_{j}") for j in range(n)])
        return ctx, ins

    def claims(self, outs, ins, aux):
        Rd, T, nT, nyB, xC, q = outs
        nT = nT[0][0]
        nyB = nyB[0][0]
        Tv = [T[i][0] for i in range(3)]
        cl = ortho_claims("Rd", Rd)
        like = ins[0][0]
        thr = const(1e-3, like)
        for i in range(3):
            cl.append(Claim(f"zB*nT=T[{i}]", Rd[i][2] * nT, Tv[i], guard=(nT, "gt", thr)))
        cl.append(Claim("yB_perp_heading", Rd[0][1] * xC[0][0] + Rd[1][1] * xC[1][0] + Rd[2][1] * xC[2][0], 0,
                        guard=(nyB, "gt", thr)))
        cl.append(Claim("nT^2=|T|^2", nT * nT, V.dot(Tv, Tv)))
        cl.append(Claim("nT>=0", nT, 0, "ge"))
        cl.append(Claim("heading_unit", xC[0][0] * xC[0][0] + xC[1][0] * xC[1][0] + xC[2][0] * xC[2][0], 1))
        return cl


class FlatRef(Harness):
    """differential-flatness references (bezier.derive_ref 'f_ref' and mr_ref_traj): C_be proper rotation,
    z_b * T = m (g e3 - a), y_b perpendicular to the heading, T = |thrust|, M = J w' + w x J w,
    roll/pitch rates = rotation rate of the thrust axis:  (d z_b / d a) j = q x_b - p y_b"""
    timeout_ms = 60000
    max_cells = 200

    def __init__(self, which):
        self.which = which
        self.name = f"C14:flatness:{which}"
        self.shards = 6

    def build(self):
        with Spy() as sp:
            if self.which == "f_ref":
                import cyecca.models.bezier as b
                f = b.derive_ref()["f_ref"]
                self.consts = dict(m=b.m, g=b.g, J=(b.J_xx, b.J_yy, b.J_zz, b.J_xz))
            else:
                import cyecca.models.mr_ref_traj as b
                f = b.derive_mr_ref_traj()["mr_ref_traj"]
                self.consts = None
        rec = sp.rec
        si = f.sx_in()
        so = f(*si)
        names = [f.name_in(i) for i in range(f.n_in())]
        if names[:7] != ["psi", "psi_dot", "psi_ddot", "v_e", "a_e", "j_e", "s_e"]:
            raise HarnessError(f"{self.which}: signature changed: {names}")
        if self.which == "f_ref":
            if len(rec["dcm_from_matrix"]) < 1:
                raise HarnessError("f_ref: C_be is not passed through SO3Dcm.from_Matrix")
            C = rec["dcm_from_matrix"][0]
        else:
            C = so[1]
        thrust = rec["norm_2"][0]
        a_e, j_e = si[4], si[5]
        zb = C[:, 2]
        zb_dot = ca.jacobian(zb, a_e) @ j_e
        self.n_in = [s.numel() for s in si]
        return ca.Function(self.which + "_obs", si, [C, thrust, so[5], so[2], so[3], so[4], zb_dot, ca.norm_2(rec["norm_2"][1])])

    def make_ctx(self):
        ctx = Ctx()
        ins = [[Val.var(f"i{k}_{j}") for j in range(n)] for k, n in enumerate(self.n_in)]
        psi = ins[0][0]
        s, c = Val.var("s_psi"), Val.var("c_psi")
        ctx.assume(V.eq(s * s + c * c, 1))
        from ..enc import Angle
        ctx.angles.append(Angle(psi, sin=s, cos=c, name="psi"))

        def fix(env):
            if "i0_0" in env:
                env["s_psi"], env["c_psi"] = mp.sin(env["i0_0"]), mp.cos(env["i0_0"])
        ctx.probe_fix = fix
        ctx.aux = dict(s=s, c=c)
        if self.consts is None:
            for k in (7, 8, 9, 10, 11):  # m, g, J_xx, J_yy, J_zz > 0
                ctx.assume(ins[k][0].num_term() > 0)
        return ctx, ins

    def env_fix(self, env):
        if "i0_0" in env:
            env["s_psi"], env["c_psi"] = mp.sin(env["i0_0"]), mp.cos(env["i0_0"])

    def claims(self, outs, ins, aux):
        C, thrust, T, w, wd, M, zbd, nyb = outs
        T = T[0][0]
        nyb = nyb[0][0]
        like = ins[1][0]
        tol = const(1e-6, like)
        th = [thrust[i][0] for i in range(3)]
        a = ins[4]
        if self.consts is not None:
            m, g = const(self.consts["m"], like), const(self.consts["g"], like)
            Jx, Jy, Jz, Jxz = (const(x, like) for x in self.consts["J"])
        else:
            m, g, Jx, Jy, Jz, Jxz = (ins[k][0] for k in (7, 8, 9, 10, 11, 12))
        cl = ortho_claims("C_be", C)
        dem = [-m * a[0], -m * a[1], m * (g - a[2])]
        for i in range(3):
            cl.append(Claim(f"thrust_vector[{i}]", th[i], dem[i]))
            cl.append(Claim(f"z_b*T=thrust[{i}]", C[i][2] * T, th[i], guard=(T, "gt", tol)))
        cl.append(Claim("T^2=|thrust|^2", T * T, V.dot(th, th), guard=(T, "gt", tol)))
        s, c = aux["s"], aux["c"]
        cl.append(Claim("y_b_perp_heading", C[0][1] * c + C[1][1] * s, 0, guard=(nyb, "gt", tol)))
        wv = [w[i][0] for i in range(3)]
        wdv = [wd[i][0] for i in range(3)]
        Jw = [Jx * wv[0] + Jxz * wv[2], Jy * wv[1], Jxz * wv[0] + Jz * wv[2]]
        Jwd = [Jx * wdv[0] + Jxz * wdv[2], Jy * wdv[1], Jxz * wdv[0] + Jz * wdv[2]]
        cr = V.cross(wv, Jw)
        for i in range(3):
            cl.append(Claim(f"euler_equation[{i}]", M[i][0], Jwd[i] + cr[i]))
        # rate of the thrust axis: zb' = q x_b - p y_b  (regular cells only: T and |y_b| above the thresholds)
        for i in range(3):
            cl.append(Claim(f"thrust_axis_rate[{i}]", zbd[i][0], wv[1] * C[i][0] - wv[0] * C[i][1],
                            guard=(T, "gt", tol)))
        return cl


class EulerSetpoint(Harness):
    """input_auto_level / eulerB321_to_quat: the matrix handed to the quaternion extraction is a proper rotation
    (product of elementary rotations); the unit quaternion then follows from the leaf lemma"""
    timeout_ms = 60000
    max_cells = 64

    def __init__(self, which):
        self.which = which
        self.name = f"C14:euler_setpoint:{which}"

    def build(self):
        with Spy() as sp:
            if self.which == "input_auto_level":
                import cyecca.models.rdd2 as r
                f = r.derive_input_auto_level()["input_auto_level"]
            else:
                import cyecca.models.bezier as b
                f = b.derive_eulerB321_to_quat()["eulerB321_to_quat"]
        if len(sp.rec["quat_from_matrix"]) != 1:
            raise HarnessError(f"{self.which}: expected one quaternion extraction")
        si = f.sx_in()
        self.n_in = [s.numel() for s in si]
        return ca.Function(self.which + "_obs", si, [sp.rec["quat_from_matrix"][0]])

    def make_ctx(self):
        ctx = Ctx()
        ctx.aux = {}
        return ctx, [[Val.var(f"i{k}_{j}") for j in range(n)] for k, n in enumerate(self.n_in)]

    def claims(self, outs, ins, aux):
        return ortho_claims("R", outs[0])


def lemma_harnesses():
    from . import C07
    return [C07.FromMatrixLeaf(1), C07.FromMatrixLeaf(-1)]


def all_harnesses(tier):
    return [ThrustFrame("position_control"), ThrustFrame("se23_position_control"), FlatRef("f_ref"), FlatRef("mr_ref_traj"),
            EulerSetpoint("input_auto_level"), EulerSetpoint("eulerB321_to_quat")]


def get_harness(name, tier="quick"):
    for h in all_harnesses(tier) + lemma_harnesses():
        if h.name == name:
            return h
    raise KeyError(name)


def jobs(tier, seed):
    return harness_jobs(__name__, all_harnesses(tier) + lemma_harnesses(), seed, tier)
