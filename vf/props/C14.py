"""C14 - attitude set-points are proper rotations aligned with demanded thrust and heading.

Internal vectors of the shipped derive_* functions (demanded force T, heading vector, the matrix handed to the
quaternion extraction) are observed by call-through recording of casadi.norm_2 / casadi.cross and
SO3Quat/SO3Dcm.from_Matrix while the real derive function runs - nothing is altered; an auxiliary CasADi
Function over the shipped function's own input symbols exposes them next to the real outputs."""
from __future__ import annotations
from fractions import Fraction
import casadi as ca
import mpmath as mp
import z3

from ..harness import Harness, Claim, HarnessError, StructureChanged
from ..val import Val
from .. import val as V
from ..enc import Ctx
from ..runner import run_harness_job, harness_jobs
from .C02 import entry_claims
from .C07 import ortho_claims

LEVEL = "proof"
TRUSTED = ["CasADi SX construction, AD and instruction API", "IR->SMT encoder (validated against CasADi's VM on every run)",
           "C07 leaf lemma: SO3Quat.from_Matrix of a rotation matrix is a unit quaternion with that matrix (re-discharged here)",
           "z3 5.1.0 nlsat"]
ASSUMPTIONS = ["real arithmetic (no IEEE rounding)", "thrust-frame harnesses: the camera quaternion is a pure-yaw unit quaternion "
               "(any yaw); tilted camera attitudes are not covered", "unit-quaternion claims are modular: the matrix handed to the quaternion "
               "extraction is proved to be a proper rotation on every branch cell, the extraction itself is the leaf lemma",
               "heading = yaw of the camera quaternion as the code extracts it (fresh angle with unit (sin, cos))"]
BOUNDS = {"cells": "saturation of the feedback term, thrust-norm threshold, heading cross-product threshold, Euler gimbal cells "
                   "of the yaw extraction, small-angle cells of the SE_2(3) Jacobian"}
EXPLANATION = "per branch cell: orthonormality/determinant, alignment with the demanded force and heading, rate consistency"


class Spy:
    """call-through recording of selected callables (module attribute or class method)"""

    def __init__(self):
        self.rec = {"norm_2": [], "cross": [], "quat_from_matrix": [], "dcm_from_matrix": []}
        self._undo = []

    def __enter__(self):
        import casadi
        import cyecca.lie.group_so3 as g
        r = self.rec
        o_norm, o_cross = casadi.norm_2, casadi.cross

        def norm_2(x):
            r["norm_2"].append(x)
            return o_norm(x)

        def cross(a, b, *k):
            r["cross"].append((a, b))
            return o_cross(a, b, *k)
        casadi.norm_2, casadi.cross = norm_2, cross
        self._undo.append(lambda: (setattr(casadi, "norm_2", o_norm), setattr(casadi, "cross", o_cross)))
        oq = g.SO3QuatLieGroup.__dict__["from_Matrix"]
        od = g.SO3DcmLieGroup.__dict__["from_Matrix"]

        def qfm(self_, arg):
            r["quat_from_matrix"].append(arg)
            return oq(self_, arg)

        def dfm(self_, arg):
            r["dcm_from_matrix"].append(arg)
            return od(self_, arg)
        g.SO3QuatLieGroup.from_Matrix = qfm
        g.SO3DcmLieGroup.from_Matrix = dfm
        self._undo.append(lambda: (setattr(g.SO3QuatLieGroup, "from_Matrix", oq), setattr(g.SO3DcmLieGroup, "from_Matrix", od)))
        return self

    def __exit__(self, *a):
        for u in self._undo:
            u()
        return False


def const(x, like):
    return Val(Fraction(x)) if isinstance(like, Val) else mp.mpf(x)


class ThrustFrame(Harness):
    """position_control / se23_position_control: Rd = [xB yB zB] handed to the quaternion extraction is a proper
    rotation; zB * nT = T (demanded force) when |T| > 1e-3; yB is perpendicular to the heading vector when the
    cross product is non-degenerate; nT = |T|"""
    timeout_ms = 180000  # the known-finding cells need ~40 s on a quiet machine; generous so that load does not turn them unknown
    max_cells = 200

    def __init__(self, which):
        self.which = which
        self.name = f"C14:thrust_frame:{which}"
        self.shards = 3 if which == "se23_position_control" else 2

    def build(self):
        with Spy() as sp:
            if self.which == "position_control":
                import cyecca.models.rdd2 as r
                f = r.derive_position_control()["position_control"]
            else:
                import cyecca.models.rdd2_loglinear as r
                f = r.derive_outerloop_control()["se23_position_control"]
        rec = sp.rec
        if len(rec["quat_from_matrix"]) != 1 or len(rec["norm_2"]) < 3 or len(rec["cross"]) < 2:
            raise StructureChanged(f"{self.which}: unexpected structure (norm_2 x{len(rec['norm_2'])}, cross x{len(rec['cross'])}, "
                               f"from_Matrix x{len(rec['quat_from_matrix'])})")
        Rd = rec["quat_from_matrix"][0]
        T = rec["norm_2"][-2]
        yB_raw = rec["norm_2"][-1]
        zB, xC = rec["cross"][-2]
        si = f.sx_in()
        so = f(*si)
        self.n_in = [s.numel() for s in si]
        self.in_names = [f.name_in(i) for i in range(f.n_in())]
        return ca.Function(self.which + "_obs", si, [Rd, T, so[0], ca.norm_2(yB_raw), xC])

    def make_ctx(self):
        from ..oracles import Lattice
        ctx = Ctx()
        ctx.light_feasibility = True
        ctx.aux = {}
        ins = []
        names = self.in_names
        L = Lattice(ctx, "yaw", "quarter")  # camera quaternion: pure yaw (cos yaw/2, 0, 0, sin yaw/2), yaw in (0, 2pi)
        self.lats = [L]
        for k, n in enumerate(self.n_in):
            if names[k] == "qc_wb":
                ins.append([L.c2, Val(0), Val(0), L.s2])
            elif names[k] == "zeta":
                # attitude-error part of zeta pinned to zero (the thrust frame does not depend on it structurally
                # other than through the feedback force, which stays fully symbolic via the 6 translational entries)
                ins.append([Val.var(f"i{k}_{j}") for j in range(6)] + [Val(0)] * 3)
            else:
                ins.append([Val.var(f"i{k}_{j}") for j in range(n)])
        return ctx, ins

    def env_fix(self, env):
        for L in self.lats:
            L.concretize(env)

    def claims(self, outs, ins, aux):
        Rd, T, nT, nyB, xC = outs
        nT = nT[0][0]
        nyB = nyB[0][0]
        Tv = [T[i][0] for i in range(3)]
        cl = ortho_claims("Rd", Rd)
        like = ins[0][0]
        thr = const(1e-3, like)
        for i in range(3):
            cl.append(Claim(f"zB*nT=T[{i}]", Rd[i][2] * nT, Tv[i], guard=(nT, "gt", thr)))
        cl.append(Claim("yB_perp_heading", Rd[0][1] * xC[0][0] + Rd[1][1] * xC[1][0] + Rd[2][1] * xC[2][0], 0,
                        guard=(nyB, "gt", thr)))
        cl.append(Claim("nT^2=|T|^2", nT * nT, V.dot(Tv, Tv)))
        cl.append(Claim("nT>=0", nT, 0, "ge"))
        cl.append(Claim("heading_unit", xC[0][0] * xC[0][0] + xC[1][0] * xC[1][0] + xC[2][0] * xC[2][0], 1))
        return cl


def _derive_flat(which):
    with Spy() as sp:
        if which == "f_ref":
            import cyecca.models.bezier as b
            f = b.derive_ref()["f_ref"]
            consts = dict(m=b.m, g=b.g, J=(b.J_xx, b.J_yy, b.J_zz, b.J_xz))
        else:
            import cyecca.models.mr_ref_traj as b
            f = b.derive_mr_ref_traj()["mr_ref_traj"]
            consts = None
    rec = sp.rec
    si = f.sx_in()
    so = f(*si)
    names = [f.name_in(i) for i in range(f.n_in())]
    if names[:7] != ["psi", "psi_dot", "psi_ddot", "v_e", "a_e", "j_e", "s_e"]:
        raise StructureChanged(f"{which}: signature changed: {names}")
    if which == "f_ref":
        if len(rec["dcm_from_matrix"]) < 1:
            raise StructureChanged("f_ref: C_be is not passed through SO3Dcm.from_Matrix")
        C = rec["dcm_from_matrix"][0]
    else:
        C = so[1]
    if len(rec["norm_2"]) < 2:
        raise StructureChanged(f"{which}: expected norm_2 of the thrust vector and of y_b")
    return f, si, so, C, rec["norm_2"][0], rec["norm_2"][1], consts


class FlatBase(Harness):
    timeout_ms = 60000
    max_cells = 64

    def _ctx(self):
        ctx = Ctx()
        ctx.light_feasibility = True
        ins = [[Val.var(f"i{k}_{j}") for j in range(n)] for k, n in enumerate(self.n_in)]
        psi = ins[0][0]
        s, c = Val.var("s_psi"), Val.var("c_psi")
        ctx.assume(V.eq(s * s + c * c, 1))
        from ..enc import Angle
        ctx.angles.append(Angle(psi, sin=s, cos=c, name="psi"))

        def fix(env):
            if "i0_0" in env:
                env["s_psi"], env["c_psi"] = mp.sin(env["i0_0"]), mp.cos(env["i0_0"])
        ctx.probe_fix = fix
        ctx.aux = dict(s=s, c=c)
        if self.consts is None:
            for k in (7, 8, 9, 10, 11):  # m, g, J_xx, J_yy, J_zz > 0
                ctx.assume(ins[k][0].num_term() > 0)
        return ctx, ins

    def make_ctx(self):
        return self._ctx()

    def env_fix(self, env):
        # a solver model fixes (sin psi, cos psi): take psi from them; otherwise derive them from psi
        if "s_psi" in env and "c_psi" in env and (env["s_psi"] != 0 or env["c_psi"] != 0):
            env["i0_0"] = mp.atan2(env["s_psi"], env["c_psi"])
        if "i0_0" in env:
            env["s_psi"], env["c_psi"] = mp.sin(env["i0_0"]), mp.cos(env["i0_0"])

    def params(self, ins, like):
        if self.consts is not None:
            m, g = const(self.consts["m"], like), const(self.consts["g"], like)
            Jx, Jy, Jz, Jxz = (const(x, like) for x in self.consts["J"])
        else:
            m, g, Jx, Jy, Jz, Jxz = (ins[k][0] for k in (7, 8, 9, 10, 11, 12))
        return m, g, Jx, Jy, Jz, Jxz


class FlatFrame(FlatBase):
    """differential-flatness references (bezier 'f_ref', 'mr_ref_traj'): C_be is a proper rotation on every cell,
    thrust = m (g e3 - a), z_b * T = thrust and T = |thrust| above the thrust threshold, y_b perpendicular to the
    heading when the cross product is non-degenerate"""

    def __init__(self, which):
        self.which = which
        self.name = f"C14:flat_frame:{which}"

    def build(self):
        f, si, so, C, thrust, yb_raw, self.consts = _derive_flat(self.which)
        self.n_in = [s.numel() for s in si]
        return ca.Function(self.which + "_frame", si, [C, thrust, so[5], ca.norm_2(yb_raw)])

    def claims(self, outs, ins, aux):
        C, thrust, T, nyb = outs
        T = T[0][0]
        nyb = nyb[0][0]
        like = ins[1][0]
        tol = const(1e-6, like)
        th = [thrust[i][0] for i in range(3)]
        a = ins[4]
        m, g, Jx, Jy, Jz, Jxz = self.params(ins, like)
        cl = ortho_claims("C_be", C)
        dem = [-m * a[0], -m * a[1], m * (g - a[2])]
        for i in range(3):
            cl.append(Claim(f"thrust_vector[{i}]", th[i], dem[i]))
            cl.append(Claim(f"z_b*T=thrust[{i}]", C[i][2] * T, th[i], guard=(T, "gt", tol)))
        cl.append(Claim("T^2=|thrust|^2", T * T, V.dot(th, th), guard=(T, "gt", tol)))
        cl.append(Claim("y_b_perp_heading", C[0][1] * aux["c"] + C[1][1] * aux["s"], 0, guard=(nyb, "gt", tol)))
        return cl


class FlatRates(FlatBase):
    """roll and pitch rates are the rotation rate of the thrust axis along the trajectory:
    (d z_b / d a) j = q x_b - p y_b   (regular cells: thrust and |y_b| above their thresholds)"""

    def __init__(self, which):
        self.which = which
        self.name = f"C14:flat_rates:{which}"

    def build(self):
        f, si, so, C, thrust, yb_raw, self.consts = _derive_flat(self.which)
        a_e, j_e = si[4], si[5]
        zb_dot = ca.jacobian(C[:, 2], a_e) @ j_e
        self.n_in = [s.numel() for s in si]
        return ca.Function(self.which + "_rates", si, [C, so[5], so[2][0], so[2][1], zb_dot, ca.norm_2(yb_raw)])

    def claims(self, outs, ins, aux):
        C, T, p, q, zbd, nyb = outs
        T, p, q, nyb = T[0][0], p[0][0], q[0][0], nyb[0][0]
        like = ins[1][0]
        tol = const(1e-6, like)
        cl = []
        for i in range(3):
            cl.append(Claim(f"thrust_axis_rate[{i}]", zbd[i][0], q * C[i][0] - p * C[i][1],
                            guard=[(T, "gt", tol), (nyb, "gt", tol)]))
        return cl

    def cell_filter(self, cell):
        return True


class FlatYawRate(FlatBase):
    """the yaw rate / yaw acceleration outputs are defined (no zero denominator, no asin/atan2 domain error) on every
    branch cell, including the documented singular-attitude fallbacks"""
    defined = "prove"
    max_cells = 256

    def __init__(self, which):
        self.which = which
        self.name = f"C14:flat_yaw_rate:{which}"
        self.shards = 4

    def build(self):
        f, si, so, C, thrust, yb_raw, self.consts = _derive_flat(self.which)
        self.n_in = [s.numel() for s in si]
        return ca.Function(self.which + "_yaw", si, [so[2][2]])

    def claims(self, outs, ins, aux):
        return []


def job_flat_uf(which):
    """QF_UF obligations on the flatness references: M_b is congruent to J w' + w x J w built from the returned
    rates; (which='agree') f_ref is congruent to mr_ref_traj evaluated at the module constants"""
    import time
    from ..ir import IR
    from ..uf import UFDomain, uf_outputs, uf_equiv
    t0 = time.time()
    name = f"C14:flat_uf:{which}"
    stats = dict(name=name, cells=1, queries=0, solver_time=0.0, functions=[], resolutions={})
    recs = []
    try:
        if which in ("f_ref", "mr_ref_traj"):
            f, si, so, C, thrust, yb_raw, consts = _derive_flat(which)
            if consts is not None:
                Jx, Jy, Jz, Jxz = consts["J"]
            else:
                Jx, Jy, Jz, Jxz = si[9], si[10], si[11], si[12]
            J = ca.SX(3, 3)
            J[0, 0] = Jx
            J[1, 1] = Jy
            J[2, 2] = Jz
            J[0, 2] = J[2, 0] = Jxz
            ref = J @ so[3] + ca.cross(so[2], J @ so[2])
            g_ = ca.Function("euler_eq", si, [so[4], ref])
            labels = [f"euler_equation[{i}]" for i in range(3)]
        else:
            import cyecca.models.bezier as b
            f1, si, so1, *_ = _derive_flat("f_ref")
            f2 = _derive_flat("mr_ref_traj")[0]
            so2 = f2(*si, b.m, b.g, b.J_xx, b.J_yy, b.J_zz, b.J_xz)
            g_ = ca.Function("agree", si, [ca.vertcat(so1[0], so1[2], so1[3], so1[4], so1[5]),
                                           ca.vertcat(so2[0], so2[2], so2[3], so2[4], so2[5])])
            labels = [f"agree:{n}[{i}]" for n, k in (("v_b", 3), ("omega", 3), ("omega_dot", 3), ("M_b", 3), ("T", 1)) for i in range(k)]
    except HarnessError:
        raise
    except Exception as e:
        import traceback
        return dict(records=[dict(label="build", status="crash", harness=name, detail=f"{type(e).__name__}: {e}",
                                  trace=traceback.format_exc()[-1500:])], stats=stats)
    ir = IR(g_)
    stats["functions"].append(dict(function=g_.name(), instructions=ir.n_instr))
    D = UFDomain()
    outs = uf_outputs(ir, D)
    for (k, r), lab in zip(uf_equiv(outs[0], outs[1], D), labels):
        rec = dict(label=lab, harness=name, cell="uf", t=0.0, status={"unsat": "proved", "sat": "refuted", "unknown": "unknown"}[r])
        if rec["status"] == "refuted":
            import random
            from ..harness import _casadi_eval, _same
            rng = random.Random(k)
            diff = None
            for _ in range(200):
                pt = [[rng.uniform(-1, 1) + (9.0 if (i == 4 and j == 2) else 0) for j in range(ir.in_nnz[i])] for i in range(ir.n_in)]
                o = _casadi_eval(g_, pt)
                a, b_ = o[0][k][0], o[1][k][0]
                if not _same(a, b_, 1e-9):
                    diff = dict(inputs=pt, lhs=a, rhs=b_)
                    break
            rec["replay"] = dict(confirmed=diff is not None, **(diff or {"reason": "not congruent, but numerically equal at 200 points"}))
            if diff is None:
                rec["status"] = "spurious"
        recs.append(rec)
        stats["queries"] += 1
    stats["wall"] = time.time() - t0
    return dict(records=recs, stats=stats)


class EulerSetpoint(Harness):
    """input_auto_level / eulerB321_to_quat: the matrix handed to the quaternion extraction is a proper rotation
    (product of elementary rotations); the unit quaternion then follows from the leaf lemma"""
    timeout_ms = 60000
    max_cells = 64

    def __init__(self, which):
        self.which = which
        self.name = f"C14:euler_setpoint:{which}"

    def build(self):
        with Spy() as sp:
            if self.which == "input_auto_level":
                import cyecca.models.rdd2 as r
                f = r.derive_input_auto_level()["input_auto_level"]
            else:
                import cyecca.models.bezier as b
                f = b.derive_eulerB321_to_quat()["eulerB321_to_quat"]
        if len(sp.rec["quat_from_matrix"]) != 1:
            raise StructureChanged(f"{self.which}: expected one quaternion extraction")
        si = f.sx_in()
        self.n_in = [s.numel() for s in si]
        return ca.Function(self.which + "_obs", si, [sp.rec["quat_from_matrix"][0]])

    def make_ctx(self):
        ctx = Ctx()
        ctx.aux = {}
        return ctx, [[Val.var(f"i{k}_{j}") for j in range(n)] for k, n in enumerate(self.n_in)]

    def claims(self, outs, ins, aux):
        return ortho_claims("R", outs[0])


def lemma_harnesses():
    from . import C07
    return [C07.FromMatrixLeaf(1), C07.FromMatrixLeaf(-1)]


def all_harnesses(tier):
    hs = [ThrustFrame("position_control"), ThrustFrame("se23_position_control"),
          EulerSetpoint("input_auto_level"), EulerSetpoint("eulerB321_to_quat")]
    for w in ("f_ref", "mr_ref_traj"):
        hs += [FlatFrame(w), FlatRates(w), FlatYawRate(w)]
    return hs


def get_harness(name, tier="quick"):
    for h in all_harnesses(tier) + lemma_harnesses():
        if h.name == name:
            return h
    raise KeyError(name)


def jobs(tier, seed):
    js = harness_jobs(__name__, all_harnesses(tier) + lemma_harnesses(), seed, tier)
    # (agreement of the two variants, job_flat_uf('agree'): their instruction lists are not congruent and the per-cell
    #  SMT comparison was not attempted; both are instead checked against the same oracles above)
    for w in ("f_ref", "mr_ref_traj"):
        js.append((f"C14:flat_uf:{w}", job_flat_uf, (w,)))
    return js
