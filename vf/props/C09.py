"""C09 - generated C code computes the same functions as the symbolic models (translation validation).

Per generated function: the emitted straight-line C is parsed (front end B) and proved congruent, in QF_UF
with every arithmetic/libm operation uninterpreted, to the instruction list of the CasADi Function it was
generated from; exported names, arities, argument names and sparsity tables are compared; the file must
compile with gcc -Wall -Werror; the compiled object is run against CasADi's VM at random points as a check of
the C parser itself (not as the verdict)."""
from __future__ import annotations
from ..harness import StructureChanged
import ctypes
import itertools
import os
import random
import re
import shutil
import subprocess
import tempfile
import time
import traceback
import casadi as ca

from ..ir import IR
from ..uf import UFDomain, uf_outputs
from ..cparse import CFile, COutView, CParseError
from ..harness import HarnessError, _same
import z3

LEVEL = "translation_validation"
TRUSTED = ["CasADi's Function instruction API as the meaning of the symbolic function", "the C parser (validated on every run "
           "by executing the compiled object against CasADi's VM)", "gcc as the reference compiler for 'compiles cleanly'",
           "exact IEEE commutativity of + and * (operand order normalisation)", "z3 (QF_UF)"]
ASSUMPTIONS = ["equivalence is syntactic modulo congruence: it holds under any deterministic semantics of the operations, "
               "including NaN/Inf produced in unselected branches", "compiler correctness is not addressed"]
BOUNDS = {"quick": "every shipped equation set through its own generator with default options + each single option flipped "
                   "for the generic generator on the smallest set",
          "thorough": "all pairs of flipped options on every set"}
EXPLANATION = ("programs = generated C functions x generator configurations; each is proved congruent to its CasADi "
               "instruction list in QF_UF and cross-executed")

WORK = os.path.join(os.path.dirname(os.path.dirname(os.path.dirname(os.path.abspath(__file__)))), ".work")


# ---- equation sets ------------------------------------------------------------------------------------------------

def set_estimator_alg(dest, **kw):
    import cyecca.estimate.attitude.algorithms as alg
    eqs = alg.eqs()
    alg.generate_code(eqs, dest, **kw)
    return {f"casadi_{k}.c": v for k, v in eqs.items()}


def set_estimator_generic(dest, **kw):
    import cyecca.estimate.attitude.algorithms as alg
    import cyecca.codegen as cg
    eqs = alg.eqs()
    cg.generate_code(eqs, dest, **kw)
    return {f"{k}.c": v for k, v in eqs.items()}


def _run_main(modname, dest):
    """run the module's own __main__ block (its export list) with generate_code spied on"""
    import importlib
    import runpy
    import sys
    mod = importlib.import_module(modname)
    captured = {}
    src = open(mod.__file__).read()
    # execute the __main__ block in a copy of the module namespace with argv set
    ns = dict(mod.__dict__)
    ns["__name__"] = "__main__"
    orig = ns["generate_code"]

    def spy(eqs, filename=None, dest_dir=None, **kw):
        captured["eqs"] = dict(eqs)
        captured["filename"] = filename
        return orig(eqs, filename=filename, dest_dir=dest_dir, **kw)
    old_argv = sys.argv
    sys.argv = [mod.__file__, dest]
    import io
    import contextlib
    try:
        main_src = src[src.index('if __name__ == "__main__":'):]
        ns["generate_code"] = spy
        with contextlib.redirect_stdout(io.StringIO()):
            exec(compile(main_src, mod.__file__, "exec"), ns)
    finally:
        sys.argv = old_argv
    if "eqs" not in captured:
        raise HarnessError(f"{modname}: __main__ did not call generate_code")
    return {captured["filename"]: captured["eqs"]}


def set_rdd2_main(dest, **kw):
    return _run_main("cyecca.models.rdd2", dest)


def set_loglinear_main(dest, **kw):
    return _run_main("cyecca.models.rdd2_loglinear", dest)


def set_bezier_main(dest, **kw):
    return _run_main("cyecca.models.bezier", dest)


def _set_with_options(modname, derive_names, filename):
    def fn(dest, **kw):
        import importlib
        mod = importlib.import_module(modname)
        eqs = {}
        for d in derive_names:
            eqs.update(getattr(mod, d)())
        mod.generate_code(eqs, filename=filename, dest_dir=dest, **kw)
        return {filename: eqs}
    return fn


def set_mr_ref_traj(dest, **kw):
    import cyecca.models.mr_ref_traj as m
    import cyecca.codegen as cg
    eqs = {"mr_ref_traj": m.derive_mr_ref_traj()}
    cg.generate_code(eqs, dest, **kw)
    return {"mr_ref_traj.c": eqs["mr_ref_traj"]}


SETS = {
    "estimator(algorithms.generate_code)": set_estimator_alg,
    "estimator(codegen.generate_code)": set_estimator_generic,
    "rdd2(__main__)": set_rdd2_main,
    "rdd2_loglinear(__main__)": set_loglinear_main,
    "bezier(__main__)": set_bezier_main,
    "mr_ref_traj(codegen.generate_code)": set_mr_ref_traj,
    "bezier_small(options)": _set_with_options("cyecca.models.bezier", ["derive_bezier3", "derive_eulerB321_to_quat"], "bezier_small.c"),
    "loglinear(options)": _set_with_options("cyecca.models.rdd2_loglinear", ["derive_so3_attitude_control", "derive_se23_error"], "ll.c"),
}
GENERIC_OPTS = ["verbose", "mex", "cpp", "main", "with_header", "with_mem", "with_export", "with_import", "include_math", "avoid_stack"]
GENERIC_DEFAULT = {"verbose": True, "mex": False, "cpp": False, "main": False, "with_header": True, "with_mem": False,
                   "with_export": False, "with_import": False, "include_math": True, "avoid_stack": True}
ALG_OPTS = {"main": False, "mex": False, "with_header": True, "with_mem": True}


def configs(tier):
    cfg = []
    for s in ("estimator(algorithms.generate_code)", "estimator(codegen.generate_code)", "rdd2(__main__)",
              "rdd2_loglinear(__main__)", "bezier(__main__)", "mr_ref_traj(codegen.generate_code)"):
        cfg.append((s, {}))
    for k, v in ALG_OPTS.items():
        cfg.append(("estimator(algorithms.generate_code)", {k: not v}))
    for k in GENERIC_OPTS:
        cfg.append(("bezier_small(options)", {k: not GENERIC_DEFAULT[k]}))
    if tier == "thorough":
        for a, b in itertools.combinations(GENERIC_OPTS, 2):
            cfg.append(("bezier_small(options)", {a: not GENERIC_DEFAULT[a], b: not GENERIC_DEFAULT[b]}))
        for k in GENERIC_OPTS:
            cfg.append(("loglinear(options)", {k: not GENERIC_DEFAULT[k]}))
            cfg.append(("estimator(codegen.generate_code)", {k: not GENERIC_DEFAULT[k]}))
    return cfg


# ---- per function checks ------------------------------------------------------------------------------------------

def compress(sp):
    from ..cparse import decode_sparsity
    return decode_sparsity([int(x) for x in sp.compress()])


def check_function(name, f, cfile: CFile, lib, rng):
    """returns list of records for one function"""
    recs = []
    hname = None
    if name not in cfile.exported:
        return [dict(label=f"{name}:exported", status="refuted",
                     replay=dict(confirmed=True, note=f"function {name} missing from generated file; exported: {sorted(cfile.exported)[:20]}"))]
    md = cfile.meta[name]
    exp = dict(n_in=f.n_in(), n_out=f.n_out(), name_in=[f.name_in(i) for i in range(f.n_in())],
               name_out=[f.name_out(i) for i in range(f.n_out())],
               sparsity_in=[compress(f.sparsity_in(i)) for i in range(f.n_in())],
               sparsity_out=[compress(f.sparsity_out(i)) for i in range(f.n_out())])
    from ..cparse import decode_sparsity
    for k in ("sparsity_in", "sparsity_out"):
        if md.get(k) is not None:
            md[k] = [decode_sparsity(t) for t in md[k]]
    for k, v in exp.items():
        ok = md.get(k) == v
        recs.append(dict(label=f"{name}:{k}", status="proved" if ok else "refuted",
                         replay=None if ok else dict(confirmed=True, note=f"{k}: C says {md.get(k)}, Function says {v}")))
    fx = f if f.class_name() == "SXFunction" else f.expand()
    ir = IR(fx)
    body = cfile.bodies[cfile.exported[name]]
    view = COutView(body, ir.n_in, ir.in_nnz, ir.n_out, ir.out_nnz)
    D = UFDomain()
    tF = uf_outputs(ir, D)
    tC = uf_outputs(view, D)
    n_bad = 0
    first_bad = None
    n_obl = 0
    for i in range(ir.n_out):
        for k in range(ir.out_nnz[i]):
            a, b = tF[i][k], tC[i][k]
            n_obl += 1
            if a is None and b is None:
                continue
            if a is None or b is None or not a.eq(b):
                s = z3.Solver()
                s.set("timeout", 20000)
                if a is None or b is None:
                    res = z3.sat
                else:
                    s.add(a != b)
                    res = s.check()
                if res != z3.unsat:
                    n_bad += 1
                    first_bad = first_bad or (i, k)
    rec = dict(label=f"{name}:congruent", status="proved" if n_bad == 0 else "refuted", outputs=n_obl,
               c_statements=body.n_instr, instructions=ir.n_instr)
    # differential execution (parser validation; confirms a non-congruence numerically when there is one)
    diff = None
    if lib is not None:
        try:
            diff = run_compiled(name, f, lib, rng)
        except Exception as e:  # pragma: no cover
            diff = dict(error=f"{type(e).__name__}: {e}")
    if n_bad:
        rec["replay"] = dict(confirmed=bool(diff and diff.get("mismatch")), first_output=first_bad, differential=diff)
        if not rec["replay"]["confirmed"]:
            rec["status"] = "spurious"
    elif diff and diff.get("mismatch"):
        raise HarnessError(f"{name}: C is congruent to the instruction list but the compiled object disagrees with CasADi: {diff}")
    recs.append(rec)
    return recs


def run_compiled(name, f, lib, rng, n=2):
    fn = getattr(lib, name)
    work = getattr(lib, name + "_work")
    sz = [ctypes.c_longlong() for _ in range(4)]
    work(*[ctypes.byref(x) for x in sz])
    sz_arg, sz_res, sz_iw, sz_w = [max(int(x.value), 1) for x in sz]
    for _ in range(n):
        ins = [[rng.uniform(-1.5, 1.5) for _ in range(f.nnz_in(i))] for i in range(f.n_in())]
        args = (ctypes.POINTER(ctypes.c_double) * sz_arg)()
        bufs_in = []
        for i, v in enumerate(ins):
            b = (ctypes.c_double * max(len(v), 1))(*v)
            bufs_in.append(b)
            args[i] = ctypes.cast(b, ctypes.POINTER(ctypes.c_double))
        res = (ctypes.POINTER(ctypes.c_double) * sz_res)()
        bufs_out = []
        for i in range(f.n_out()):
            b = (ctypes.c_double * max(f.nnz_out(i), 1))()
            bufs_out.append(b)
            res[i] = ctypes.cast(b, ctypes.POINTER(ctypes.c_double))
        iw = (ctypes.c_longlong * sz_iw)()
        w = (ctypes.c_double * sz_w)()
        fn.restype = ctypes.c_int
        fn(args, res, iw, w, 0)
        dms = []
        for i, v in enumerate(ins):
            sp = f.sparsity_in(i)
            dms.append(ca.DM(sp, v))
        ref = f.call(dms)
        for i in range(f.n_out()):
            r = ref[i].nonzeros()
            for k in range(f.nnz_out(i)):
                if not _same(float(r[k]), float(bufs_out[i][k]), 1e-12):
                    return dict(mismatch=True, output=(i, k), casadi=float(r[k]), c=float(bufs_out[i][k]), inputs=ins)
    return dict(mismatch=False, points=n)


def job(idx, sname, opts, tier, seed):
    t0 = time.time()
    tag = sname + ("" if not opts else ":" + ",".join(f"{k}={v}" for k, v in sorted(opts.items())))
    hname = f"C09:{tag}"
    stats = dict(name=hname, cells=0, queries=0, solver_time=0.0, functions=[], resolutions={}, programs=0)
    recs = []
    os.makedirs(WORK, exist_ok=True)
    dest = tempfile.mkdtemp(prefix="c09_", dir=WORK)
    rng = random.Random(seed * 1000 + idx)
    try:
        try:
            files = SETS[sname](dest, **opts)
        except HarnessError:
            raise
        except Exception as e:
            # generation failed: with default options this violates "every entry point succeeds"; with a flipped
            # option an exception is an acceptable rejection of the combination
            if not opts:
                recs.append(dict(label="generate", status="crash", harness=hname, detail=f"{type(e).__name__}: {e}"[:600],
                                 trace=traceback.format_exc()[-1500:]))
            else:
                recs.append(dict(label="generate:rejected_combination", status="proved", harness=hname,
                                 note=f"{type(e).__name__}: {str(e)[:200]}"))
            return dict(records=recs, stats=stats)
        for fname, eqs in files.items():
            path = os.path.join(dest, fname)
            if not os.path.exists(path):
                recs.append(dict(label=f"{fname}:written", status="refuted", harness=hname,
                                 replay=dict(confirmed=True, note=f"{fname} not written; directory has {os.listdir(dest)}")))
                continue
            text = open(path).read()
            expected = {}
            for key, f in eqs.items():
                if f.name() in expected:
                    recs.append(dict(label=f"{fname}:duplicate:{f.name()}", status="refuted", harness=hname,
                                     replay=dict(confirmed=True, note="two functions of the equation set share a C name")))
                expected[f.name()] = f
            cpp = opts.get("cpp", False)
            cc = ["g++" if cpp else "gcc", "-Wall", "-Werror", "-ffp-contract=off", "-fPIC", "-c", path, "-o", path + ".o"]
            cc[1:1] = ["-I", ca.GlobalOptions.getCasadiIncludePath()]  # casadi/mem.h for with_mem
            if opts.get("include_math") is False:
                cc[1:1] = ["-include", "math.h"]  # the user of this option supplies the math declarations
            if opts.get("mex"):
                cc = None  # needs the MATLAB headers: compile step not applicable
            lib = None
            if cc:
                p = subprocess.run(cc, capture_output=True, text=True, cwd=dest)
                ok = p.returncode == 0
                recs.append(dict(label=f"{fname}:compiles", status="proved" if ok else "refuted", harness=hname,
                                 replay=None if ok else dict(confirmed=True, note=(p.stderr or p.stdout)[-800:])))
                if ok and not opts.get("main"):
                    so = path + ".so"
                    p2 = subprocess.run(["g++" if cpp else "gcc", "-shared", "-o", so, path + ".o", "-lm"], capture_output=True, text=True)
                    if p2.returncode == 0:
                        lib = ctypes.CDLL(so)
            try:
                cf = CFile(text)
            except CParseError as e:
                raise StructureChanged(f"{hname}: {e}")
            extra = sorted(set(cf.exported) - set(expected))
            if extra:
                recs.append(dict(label=f"{fname}:extra_functions", status="refuted", harness=hname,
                                 replay=dict(confirmed=True, note=f"functions not in the equation set: {extra}")))
            for name, f in expected.items():
                stats["programs"] += 1
                stats["functions"].append(dict(function=name, file=fname))
                for r in check_function(name, f, cf, lib, rng):
                    r["harness"] = hname
                    r["label"] = f"{fname}:{r['label']}"
                    recs.append(r)
    finally:
        shutil.rmtree(dest, ignore_errors=True)
    stats["cells"] = stats["programs"]
    stats["wall"] = time.time() - t0
    return dict(records=recs, stats=stats)


def job_sequence(sname, tier, seed):
    """generation must be a function of its arguments: within ONE process, default -> (each single option flipped,
    accepted or rejected) -> default must reproduce the first default output byte for byte (no option state leaks
    from one call into the next)"""
    t0 = time.time()
    hname = f"C09:sequence:{sname}"
    stats = dict(name=hname, cells=0, queries=0, solver_time=0.0, functions=[], resolutions={}, programs=0)
    recs = []
    os.makedirs(WORK, exist_ok=True)
    opts_all = ALG_OPTS if sname.startswith("estimator(algorithms") else GENERIC_DEFAULT

    def gen(opts):
        dest = tempfile.mkdtemp(prefix="c09s_", dir=WORK)
        try:
            files = SETS[sname](dest, **opts)
            return {fn: open(os.path.join(dest, fn)).read() for fn in files if os.path.exists(os.path.join(dest, fn))}
        finally:
            shutil.rmtree(dest, ignore_errors=True)
    try:
        first = gen({})
    except Exception as e:
        recs.append(dict(label="generate", status="crash", harness=hname, detail=f"{type(e).__name__}: {e}"[:500]))
        return dict(records=recs, stats=stats)
    for k, v in opts_all.items():
        try:
            gen({k: not v})
        except Exception:
            pass  # rejected combination: allowed, but it must not poison later calls
        try:
            again = gen({})
            same = (again == first)
            note = None if same else f"default output after a call with {k}={not v} differs from the first default output"
        except Exception as e:
            same, note = False, f"default generation after a call with {k}={not v} raised {type(e).__name__}: {str(e)[:200]}"
        stats["programs"] += 1
        recs.append(dict(label=f"default_after_{k}", status="proved" if same else "refuted", harness=hname, t=0.0, cell="history",
                         replay=None if same else dict(confirmed=True, note=note)))
    stats["cells"] = stats["programs"]
    stats["wall"] = time.time() - t0
    return dict(records=recs, stats=stats)


SEQ_SETS = ["estimator(algorithms.generate_code)", "mr_ref_traj(codegen.generate_code)", "bezier_small(options)", "loglinear(options)",
            "rdd2_small(options)"]
SETS["rdd2_small(options)"] = _set_with_options("cyecca.models.rdd2", ["derive_input_acro", "derive_control_allocation"], "rdd2_small.c")


def jobs(tier, seed):
    js = [(f"C09:{k}:{s}:{sorted(o.items())}", job, (k, s, o, tier, seed)) for k, (s, o) in enumerate(configs(tier))]
    js += [(f"C09:sequence:{s}", job_sequence, (s, tier, seed)) for s in SEQ_SETS]
    return js


def evidence(tier, seed, recs, stats):
    progs = sum(s.get("programs", 0) for s in stats)
    cong = [r for r in recs if r["label"].endswith(":congruent")]
    return dict(programs=progs, disagreements_checked=len(cong),
                samples=[{k: r.get(k) for k in ("harness", "label", "status", "c_statements", "instructions", "outputs")} for r in cong[:4]],
                configurations=len(stats))


def custom_replay(rp):
    tier = rp.get("tier", "quick")
    for k, (s, o) in enumerate(configs(tier)):
        tag = s + ("" if not o else ":" + ",".join(f"{a}={b}" for a, b in sorted(o.items())))
        if f"C09:{tag}" == rp["harness"]:
            res = job(k, s, o, tier, 0)
            bad = [r for r in res["records"] if r["status"] in ("refuted", "crash") and r["label"] == rp["label"]]
            return bool(bad), dict(records=[{x: r.get(x) for x in ("label", "status", "detail")} for r in bad])
    return False, dict(note="configuration not found")
