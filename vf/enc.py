"""Demand-driven interpreters over the CasADi IR: one evaluator, several domains.

 * ValDomain  - the SMT encoder (cell-wise, DESIGN.md §1.2-1.4): values are factored rational
                functions over z3 terms; comparisons are *decisions* fixed per cell; sqrt and
                (inverse) trigonometric nodes are resolved against harness-provided oracle tables
                by solver-entailed equalities, otherwise soundly over-approximated by fresh
                constrained variables.
 * FloatDomain - IEEE doubles (python floats / math), compared with CasADi's own evaluation.
 * MpDomain    - mpmath, 50 digits (reference for replay).
 * IteDomain   - plain z3 terms with If (for piecewise-linear code, DESIGN.md C13).

The opcode dispatch (`apply`) is shared by all domains, so running Float/Mp against CasADi's VM
on every run validates the translator's reading of the instruction list.
"""
from __future__ import annotations
import math
from fractions import Fraction
import z3
import mpmath as mp

from .val import Val, lift, eq as v_eq, lt as v_lt, le as v_le, Q
from . import val as V

mp.mp.dps = 50


class Unsupported(Exception):
    pass


class Undefined(Exception):
    pass


# =============================================================================================
# generic evaluator
# =============================================================================================

def evaluate(ir, inputs, D, wanted=None):
    """Evaluate IR outputs demand-driven in domain D.  inputs[i][k] = value of nz k of input i.
    Returns outputs[i][k] (structural zeros -> D.const(0.0))."""
    nodes = ir.nodes
    val = {}
    roots = []
    outs = ir.outputs
    sel = range(ir.n_out) if wanted is None else wanted
    for i in sel:
        for n in outs[i]:
            if n is not None:
                roots.append(n)
    for root in roots:
        if root in val:
            continue
        stack = [root]
        while stack:
            n = stack[-1]
            if n in val:
                stack.pop()
                continue
            nd = nodes[n]
            op = nd.op
            if op == "CONST":
                val[n] = D.const(nd.const)
                stack.pop()
            elif op == "INPUT":
                val[n] = inputs[nd.inp[0]][nd.inp[1]]
                stack.pop()
            elif op == "IF_ELSE_ZERO":
                c, v = nd.args
                if c not in val:
                    stack.append(c)
                    continue
                if D.lazy_ite:
                    if not D.truth(val[c]):
                        val[n] = D.const(0.0)
                        stack.pop()
                        continue
                    if v not in val:
                        stack.append(v)
                        continue
                    val[n] = val[v]
                    stack.pop()
                else:
                    if v not in val:
                        stack.append(v)
                        continue
                    val[n] = D.ite0(val[c], val[v])
                    stack.pop()
            else:
                miss = [a for a in nd.args if a not in val]
                if miss:
                    stack.extend(miss)
                    continue
                val[n] = apply(D, op, [val[a] for a in nd.args])
                stack.pop()
    res = []
    for i in range(ir.n_out):
        if wanted is not None and i not in wanted:
            res.append(None)
            continue
        res.append([D.const(0.0) if n is None else val[n] for n in outs[i]])
    return res


def apply(D, op, a):
    if op == "ADD":
        return D.add(a[0], a[1])
    if op == "SUB":
        return D.sub(a[0], a[1])
    if op == "MUL":
        return D.mul(a[0], a[1])
    if op == "DIV":
        return D.div(a[0], a[1])
    if op == "NEG":
        return D.neg(a[0])
    if op == "SQ":
        return D.mul(a[0], a[0])
    if op == "TWICE":
        return D.add(a[0], a[0])
    if op == "INV":
        return D.div(D.const(1.0), a[0])
    if op == "ASSIGN":
        return a[0]
    if op == "SQRT":
        return D.sqrt(a[0])
    if op in ("CONSTPOW", "POW"):
        return D.pow(a[0], a[1])
    if op == "SIN":
        return D.sin(a[0])
    if op == "COS":
        return D.cos(a[0])
    if op == "TAN":
        return D.tan(a[0])
    if op == "ASIN":
        return D.asin(a[0])
    if op == "ACOS":
        return D.acos(a[0])
    if op == "ATAN":
        return D.atan(a[0])
    if op == "ATAN2":
        return D.atan2(a[0], a[1])
    if op == "FABS":
        return D.fabs(a[0])
    if op == "SIGN":
        return D.sign(a[0])
    if op == "LT":
        return D.lt(a[0], a[1])
    if op == "LE":
        return D.le(a[0], a[1])
    if op == "EQ":
        return D.eq(a[0], a[1])
    if op == "NE":
        return D.ne(a[0], a[1])
    if op == "NOT":
        return D.not_(a[0])
    if op == "AND":
        return D.and_(a[0], a[1])
    if op == "OR":
        return D.or_(a[0], a[1])
    if op == "FMIN":
        return D.fmin(a[0], a[1])
    if op == "FMAX":
        return D.fmax(a[0], a[1])
    if op == "FLOOR":
        return D.floor(a[0])
    if op == "CEIL":
        return D.ceil(a[0])
    if op == "FMOD":
        return D.fmod(a[0], a[1])
    if op == "REMAINDER":
        return D.remainder(a[0], a[1])
    if op == "EXP":
        return D.exp(a[0])
    if op == "LOG":
        return D.log(a[0])
    if op in ("SINH", "COSH", "TANH", "ASINH", "ACOSH", "ATANH", "ERF"):
        return getattr(D, op.lower())(a[0])
    raise Unsupported(op)


# =============================================================================================
# numeric domains
# =============================================================================================

class FloatDomain:
    lazy_ite = True

    def const(self, x):
        return float(x)

    def exact(self, fr):
        return float(fr)

    def truth(self, x):
        return x != 0

    def add(self, a, b):
        return a + b

    def sub(self, a, b):
        return a - b

    def mul(self, a, b):
        return a * b

    def div(self, a, b):
        try:
            return a / b
        except ZeroDivisionError:
            if a == 0 or a != a:
                return float("nan")
            return math.copysign(float("inf"), a) * math.copysign(1.0, b)

    def neg(self, a):
        return -a

    def sqrt(self, a):
        return math.sqrt(a) if a >= 0 else float("nan")

    def pow(self, a, b):
        try:
            return math.pow(a, b)
        except (ValueError, ZeroDivisionError, OverflowError):
            if a == 0 and b < 0:
                return float("inf")
            return float("nan")

    def sin(self, a):
        return math.sin(a)

    def cos(self, a):
        return math.cos(a)

    def tan(self, a):
        return math.tan(a)

    def asin(self, a):
        return math.asin(a) if -1 <= a <= 1 else float("nan")

    def acos(self, a):
        return math.acos(a) if -1 <= a <= 1 else float("nan")

    def atan(self, a):
        return math.atan(a)

    def atan2(self, a, b):
        return math.atan2(a, b)

    def exp(self, a):
        return math.exp(a)

    def log(self, a):
        return math.log(a) if a > 0 else float("nan")

    def sinh(self, a):
        return math.sinh(a)

    def cosh(self, a):
        return math.cosh(a)

    def tanh(self, a):
        return math.tanh(a)

    def asinh(self, a):
        return math.asinh(a)

    def acosh(self, a):
        return math.acosh(a) if a >= 1 else float("nan")

    def atanh(self, a):
        return math.atanh(a) if -1 < a < 1 else float("nan")

    def erf(self, a):
        return math.erf(a)

    def fabs(self, a):
        return abs(a)

    def sign(self, a):
        return 1.0 if a > 0 else (-1.0 if a < 0 else 0.0)

    def lt(self, a, b):
        return 1.0 if a < b else 0.0

    def le(self, a, b):
        return 1.0 if a <= b else 0.0

    def eq(self, a, b):
        return 1.0 if a == b else 0.0

    def ne(self, a, b):
        return 1.0 if a != b else 0.0

    def not_(self, a):
        return 1.0 if a == 0 else 0.0

    def and_(self, a, b):
        return 1.0 if (a != 0 and b != 0) else 0.0

    def or_(self, a, b):
        return 1.0 if (a != 0 or b != 0) else 0.0

    def fmin(self, a, b):
        return min(a, b)

    def fmax(self, a, b):
        return max(a, b)

    def floor(self, a):
        return float(math.floor(a))

    def ceil(self, a):
        return float(math.ceil(a))

    def fmod(self, a, b):
        return math.fmod(a, b)

    def remainder(self, a, b):
        return math.remainder(a, b)


class MpDomain(FloatDomain):
    def const(self, x):
        return mp.mpf(x)

    def exact(self, fr):
        return mp.mpf(fr.numerator) / fr.denominator

    def div(self, a, b):
        if b == 0:
            raise Undefined("division by zero")
        return a / b

    def sqrt(self, a):
        if a < 0:
            raise Undefined("sqrt of negative")
        return mp.sqrt(a)

    def pow(self, a, b):
        if a == 0 and b < 0:
            raise Undefined("0**negative")
        if a < 0 and b != int(b):
            raise Undefined("negative**fraction")
        return mp.power(a, b)

    def sin(self, a):
        return mp.sin(a)

    def cos(self, a):
        return mp.cos(a)

    def tan(self, a):
        return mp.tan(a)

    def asin(self, a):
        if abs(a) > 1:
            raise Undefined("asin domain")
        return mp.asin(a)

    def acos(self, a):
        if abs(a) > 1:
            raise Undefined("acos domain")
        return mp.acos(a)

    def atan(self, a):
        return mp.atan(a)

    def atan2(self, a, b):
        return mp.atan2(a, b)

    def exp(self, a):
        return mp.exp(a)

    def log(self, a):
        if a <= 0:
            raise Undefined("log domain")
        return mp.log(a)

    def sign(self, a):
        return mp.mpf(1 if a > 0 else (-1 if a < 0 else 0))

    def lt(self, a, b):
        return mp.mpf(1 if a < b else 0)

    def le(self, a, b):
        return mp.mpf(1 if a <= b else 0)

    def eq(self, a, b):
        return mp.mpf(1 if a == b else 0)

    def ne(self, a, b):
        return mp.mpf(1 if a != b else 0)

    def not_(self, a):
        return mp.mpf(1 if a == 0 else 0)

    def and_(self, a, b):
        return mp.mpf(1 if (a != 0 and b != 0) else 0)

    def or_(self, a, b):
        return mp.mpf(1 if (a != 0 or b != 0) else 0)

    def floor(self, a):
        return mp.floor(a)

    def ceil(self, a):
        return mp.ceil(a)

    def fmod(self, a, b):
        return mp.mpf(a) - b * mp.mpf(int(a / b))

    def remainder(self, a, b):
        n = mp.nint(a / b)  # round half to even
        return a - n * b


class FracDomain(MpDomain):
    """exact rationals; transcendental ops unsupported (used for exact replay of rational models)"""

    def const(self, x):
        return Fraction(x)

    def exact(self, fr):
        return Fraction(fr)

    def sqrt(self, a):
        if a < 0:
            raise Undefined("sqrt of negative")
        n, d = a.numerator, a.denominator
        rn, rd = math.isqrt(n), math.isqrt(d)
        if rn * rn == n and rd * rd == d:
            return Fraction(rn, rd)
        raise Unsupported("irrational sqrt in exact replay")

    def pow(self, a, b):
        if b == int(b):
            if a == 0 and b < 0:
                raise Undefined("0**neg")
            return Fraction(a) ** int(b)
        raise Unsupported("fractional power in exact replay")

    def _no(self, *a):
        raise Unsupported("transcendental op in exact replay")

    sin = cos = tan = asin = acos = atan = atan2 = exp = log = _no

    def sign(self, a):
        return Fraction(1 if a > 0 else (-1 if a < 0 else 0))

    def lt(self, a, b):
        return Fraction(1 if a < b else 0)

    def le(self, a, b):
        return Fraction(1 if a <= b else 0)

    def eq(self, a, b):
        return Fraction(1 if a == b else 0)

    def ne(self, a, b):
        return Fraction(1 if a != b else 0)

    def not_(self, a):
        return Fraction(1 if a == 0 else 0)

    def and_(self, a, b):
        return Fraction(1 if (a != 0 and b != 0) else 0)

    def or_(self, a, b):
        return Fraction(1 if (a != 0 or b != 0) else 0)

    def floor(self, a):
        return Fraction(math.floor(a))

    def ceil(self, a):
        return Fraction(math.ceil(a))

    def fmod(self, a, b):
        return a - b * int(a / b)

    def remainder(self, a, b):
        q = a / b
        n = round(q)  # python rounds half to even
        return a - n * b


# =============================================================================================
# SMT context: solver, oracle tables, resolution
# =============================================================================================

class Angle:
    """Oracle knowledge about one angle: its term and (any of) sin, cos, tan as Vals.
    flags ⊆ {'acos','asin','atan','atan2'}: the context entails that the angle lies in the
    principal range of that inverse function ([0,pi], [-pi/2,pi/2], (-pi/2,pi/2), (-pi,pi])."""

    def __init__(self, term, sin=None, cos=None, tan=None, flags=(), name=""):
        self.term = lift(term)
        self.sin = None if sin is None else lift(sin)
        self.cos = None if cos is None else lift(cos)
        self.tan = None if tan is None else lift(tan)
        if self.tan is None and self.sin is not None and self.cos is not None:
            pass  # tan derived on demand (needs cos != 0)
        self.flags = set(flags)
        self.name = name


PI_LO = Fraction(3141592653589793, 10 ** 15)
PI_HI = Fraction(3141592653589794, 10 ** 15)


def guarded_check(solver, timeout_ms):
    """solver.check() with a watchdog: z3's own timeout is not always honoured inside nlsat, so a timer thread
    interrupts the context a little after the deadline (the result is then `unknown`)"""
    import threading
    t = threading.Timer(timeout_ms / 1000.0 + 1.5, solver.ctx.interrupt)
    t.daemon = True
    t.start()
    try:
        return solver.check()
    except z3.Z3Exception:
        return z3.unknown
    finally:
        t.cancel()


def _term_size_exceeds(t, cap):
    seen = set()
    stack = [t]
    while stack:
        e = stack.pop()
        i = e.get_id()
        if i in seen:
            continue
        seen.add(i)
        if len(seen) > cap:
            return True
        stack.extend(e.children())
    return False


class Ctx:
    def __init__(self, timeout_ms=5000, name=""):
        self.name = name
        self.timeout_ms = timeout_ms
        self.pre = []  # harness preconditions + oracle axioms (z3 Bool)
        self.axioms = []  # constraints defining fresh variables
        self.pc = []  # path condition of the current cell
        self.solver = z3.Solver()
        self.solver.set("timeout", timeout_ms)
        # light solver: preconditions, path condition and sign facts of fresh atoms, but none of the (large)
        # defining equations of fresh variables.  Fewer constraints => unsat here implies unsat in the full context.
        self.light = z3.Solver()
        self.light.set("timeout", 3000)
        self.light_feasibility = False
        self.angles: list[Angle] = []
        self.roots: list[Val] = [Val(1)]  # candidate non-negative roots
        self.fresh_sqrts = []
        self._alive = []
        self.fresh = 0
        self.memo = {}
        self.resolutions = []  # log
        self.defs = []  # definedness side conditions met on the way: (kind, z3 Bool that must hold)
        self.queries = 0
        self.solver_time = 0.0
        self.unknowns = 0
        self._pi = None

    # ---- basic ------------------------------------------------------------------------
    def assume(self, *fs):
        for f in fs:
            self.pre.append(f)
            self.solver.add(f)
            self.light.add(f)

    def axiom(self, *fs):
        for f in fs:
            self.axioms.append(f)
            self.solver.add(f)

    def path(self, f):
        self.pc.append(f)
        self.solver.add(f)
        self.light.add(f)

    def check_light(self, f):
        self.queries += 1
        self.light.push()
        self.light.add(f)
        r = guarded_check(self.light, 3000)
        self.light.pop()
        return str(r)

    def pi(self):
        if self._pi is None:
            p = z3.Real("pi")
            self._pi = Val.term(p)
            self.assume(p > Q(PI_LO), p < Q(PI_HI))
        return self._pi

    def new(self, base):
        self.fresh += 1
        return z3.Real(f"{base}!{self.fresh}")

    def new_int(self, base):
        self.fresh += 1
        return z3.Int(f"{base}!{self.fresh}")

    def check(self, *extra, timeout_ms=None):
        import time
        t0 = time.time()
        self.queries += 1
        if timeout_ms is not None:
            self.solver.set("timeout", timeout_ms)
        self.solver.push()
        for e in extra:
            self.solver.add(e)
        r = guarded_check(self.solver, (timeout_ms or self.timeout_ms))
        self.solver.pop()
        if timeout_ms is not None:
            self.solver.set("timeout", self.timeout_ms)
        self.solver_time += time.time() - t0
        if r == z3.unknown:
            self.unknowns += 1
        return str(r)

    def entails(self, f, timeout_ms=None):
        if z3.is_true(f):
            return True
        if getattr(self, "poly_first", False) and _term_size_exceeds(f, 20000):
            sf = f  # z3.simplify has no time limit; very large terms go straight to the (time-limited) solver
        else:
            sf = z3.simplify(f)
        if z3.is_true(sf):
            return True
        if z3.is_false(sf):
            return False
        return self.check(z3.Not(f), timeout_ms=timeout_ms) == "unsat"

    def entails_eq(self, a: Val, b: Val, timeout_ms=None):
        d = a - b
        if d.is_zero():
            return True
        if d.is_const():
            return False
        if not self.maybe_equal(a, b):
            return False
        if getattr(self, "poly_first", False):
            # opt-in: decide pure polynomial identities by exact expansion before asking the solver
            try:
                from .poly import expand
                if not expand(d.num_term(), limit=200000, budget_s=getattr(self, 'poly_budget', 8.0)):
                    self.resolutions.append(("entails", "polynomial-identity"))
                    return True
            except Exception:
                pass
        return self.entails(d.num_term() == 0, timeout_ms)

    # ---- numeric pre-filter for candidate selection (never decides anything: a candidate that fails the
    #      probe is simply not submitted to the solver and the node falls back to the sound fresh-variable
    #      over-approximation) -------------------------------------------------------------------------
    def _probe_env(self, k):
        import random
        if not hasattr(self, "_probes"):
            self._probes = [dict(), dict()]
            self._prng = random.Random(12345)

        class Env(dict):
            def __init__(s2, base, rng, fix):
                super().__init__(base)
                s2.base, s2.rng, s2.fix = base, rng, fix

            def __missing__(s2, key):
                v = mp.mpf(s2.rng.uniform(0.35, 1.45))
                s2.base[key] = v
                s2[key] = v
                return v
        e = Env(self._probes[k], self._prng, None)
        return e

    def maybe_equal(self, a: Val, b: Val):
        from .solve import eval_val, val_vars
        try:
            names = val_vars([a, b])
            if any("!" in n for n in names):
                # expressions over fresh (axiom-defined) variables: an entailment query would have to reason with
                # their defining equations, which is where z3 stalls; only structural equality resolves them
                return bool(getattr(self, "resolve_fresh", False))
            for k in (0, 1):
                env = self._probe_env(k)
                for n in names:
                    env[n]
                fix = getattr(self, "probe_fix", None)
                if fix is not None:
                    fix(env)
                    self._probes[k].update(env)
                va = eval_val(a, env)
                vb = eval_val(b, env)
                if abs(va - vb) > mp.mpf(10) ** (-25) * (1 + abs(va) + abs(vb)):
                    return False
            return True
        except Exception:
            return True

    def key(self, a: Val):
        self._alive.append(a)  # AST ids are only unique while the AST is referenced
        return (a.c, tuple(sorted((k, p) for k, (t, p) in a.nf.items())),
                tuple(sorted((k, p) for k, (t, p) in a.df.items())))

    # ---- sqrt -------------------------------------------------------------------------
    def sqrt(self, a: Val) -> Val:
        if a.is_const():
            c = a.c
            if c < 0:
                raise Undefined("sqrt of negative constant")
            rn, rd = math.isqrt(c.numerator), math.isqrt(c.denominator)
            if rn * rn == c.numerator and rd * rd == c.denominator:
                return Val(Fraction(rn, rd))
        k = ("sqrt",) + self.key(a)
        if k in self.memo:
            return self.memo[k]
        res = None
        # structural perfect square
        if all(p % 2 == 0 for (_, p) in a.nf.values()) and all(p % 2 == 0 for (_, p) in a.df.values()) and a.c > 0:
            rn, rd = math.isqrt(a.c.numerator), math.isqrt(a.c.denominator)
            if rn * rn == a.c.numerator and rd * rd == a.c.denominator:
                r = Val(Fraction(rn, rd), {i: (t, p // 2) for i, (t, p) in a.nf.items()},
                        {i: (t, p // 2) for i, (t, p) in a.df.items()})
                if self.entails(V.ge(r, 0)):
                    res = r
                elif self.entails(V.le(r, 0)):
                    res = -r
                if res is not None:
                    self.resolutions.append(("sqrt", "structural"))
        if res is None:
            for r in self.roots:
                if self.entails_eq(a, r * r):
                    res = r
                    self.resolutions.append(("sqrt", "root-table"))
                    break
        if res is None:
            for (a_prev, y_prev) in self.fresh_sqrts:
                if self.entails_eq(a, a_prev, 3000):
                    res = y_prev
                    self.resolutions.append(("sqrt", "reuse"))
                    break
        if res is None:
            y = self.new("sqrt")
            res = Val.term(y)
            self.fresh_sqrts.append((a, res))
            self.axiom(y >= 0, (y * y) * a.den_term() == a.num_term())
            self.light.add(y >= 0)
            if getattr(self, "sign_facts", False):  # opt-in: a positive radicand has a positive root
                self.light.add(z3.Implies(V.gt(a, 0), y > 0))
            V.SQRT_ATOMS[y.get_id()] = (y, a)  # holding y keeps its id from being reused
            self.defs.append(("sqrt", V.ge(a, 0)))
            self.resolutions.append(("sqrt", "fresh"))
        self.memo[k] = res
        return res

    # ---- trig -------------------------------------------------------------------------
    def _find_angle(self, a: Val):
        """return (Angle, sign) with a == sign*Angle.term entailed, or None"""
        k = ("ang",) + self.key(a)
        if k in self.memo:
            return self.memo[k]
        res = None
        for A in self.angles:  # cheap structural pass
            if (a - A.term).is_zero():
                res = (A, 1)
                break
            if (a + A.term).is_zero():
                res = (A, -1)
                break
        if res is None and not a.is_const():
            for A in self.angles:
                if A.term.is_const():
                    continue
                if self.entails_eq(a, A.term, 2000):
                    res = (A, 1)
                    break
                if self.entails_eq(a, -A.term, 2000):
                    res = (A, -1)
                    break
        if res is None:
            if a.is_zero():
                A = Angle(a, sin=Val(0), cos=Val(1), tan=Val(0), flags={"acos", "asin", "atan", "atan2"}, name="0")
            else:
                s = Val.term(self.new("sin"))
                c = Val.term(self.new("cos"))
                self.axiom(v_eq(s * s + c * c, 1))
                A = Angle(a, sin=s, cos=c, name="fresh")
                self.resolutions.append(("trig", "fresh"))
            self.angles.append(A)
            res = (A, 1)
        else:
            self.resolutions.append(("trig", "table"))
        self.memo[k] = res
        return res

    def _complete(self, A: Angle):
        """make sure A has sin and cos (derive from tan with fresh cos if needed)"""
        if A.sin is not None and A.cos is not None:
            return
        if A.tan is not None:
            # sin = tan*cos ; cos^2 (1+tan^2) = 1 ; sign of cos unknown
            c = Val.term(self.new("cos"))
            self.axiom(v_eq(c * c * (1 + A.tan * A.tan), 1))
            if A.flags & {"atan", "asin"}:
                self.axiom(c.num_term() > 0)
            A.cos = c
            A.sin = A.tan * c
        else:
            s = Val.term(self.new("sin"))
            c = Val.term(self.new("cos"))
            self.axiom(v_eq(s * s + c * c, 1))
            A.sin, A.cos = s, c

    def sin(self, a):
        A, sg = self._find_angle(a)
        self._complete(A)
        return A.sin if sg == 1 else -A.sin

    def cos(self, a):
        A, sg = self._find_angle(a)
        self._complete(A)
        return A.cos

    def tan(self, a):
        A, sg = self._find_angle(a)
        if A.tan is None:
            self._complete(A)
            self.defs.append(("tan", V.ne(A.cos, 0)))
            A.tan = A.sin / A.cos
        return A.tan if sg == 1 else -A.tan

    # ---- inverse trig -----------------------------------------------------------------
    def acos(self, x: Val):
        k = ("acos",) + self.key(x)
        if k in self.memo:
            return self.memo[k]
        res = None
        for A in self.angles:
            if "acos" in A.flags and A.cos is not None and self.entails_eq(x, A.cos, 3000):
                res = A.term
                self.resolutions.append(("acos", "table"))
                break
        if res is None:
            y = Val.term(self.new("acos"))
            s = self.sqrt(1 - x * x)
            pi = self.pi()
            self.axiom(V.ge(y, 0), V.le(y, pi))
            self.defs.append(("acos", z3.And(V.le(x, 1), V.ge(x, -1))))
            self.angles.append(Angle(y, sin=s, cos=x, flags={"acos"}, name="acos-fresh"))
            self.resolutions.append(("acos", "fresh"))
            res = y
        self.memo[k] = res
        return res

    def asin(self, x: Val):
        if x.is_zero():
            return Val(0)
        k = ("asin",) + self.key(x)
        if k in self.memo:
            return self.memo[k]
        res = None
        for A in self.angles:
            if "asin" in A.flags and A.sin is not None:
                if self.entails_eq(x, A.sin, 3000):
                    res = A.term
                    self.resolutions.append(("asin", "table"))
                    break
                if self.entails_eq(x, -A.sin, 3000):
                    res = -A.term
                    self.resolutions.append(("asin", "table"))
                    break
        if res is None:
            y = Val.term(self.new("asin"))
            c = self.sqrt(1 - x * x)
            pi = self.pi()
            self.axiom(V.ge(y, -pi / 2), V.le(y, pi / 2))
            if getattr(self, "sign_facts", False):  # opt-in: sign of asin(x) = sign of x (also in the light context)
                fs = [z3.Implies(V.gt(x, 0), V.gt(y, 0)), z3.Implies(V.lt(x, 0), V.lt(y, 0)), z3.Implies(v_eq(x, 0), v_eq(y, 0))]
                self.axiom(*fs)
                for f_ in fs:
                    self.light.add(f_)
            self.defs.append(("asin", z3.And(V.le(x, 1), V.ge(x, -1))))
            self.angles.append(Angle(y, sin=x, cos=c, flags={"asin"}, name="asin-fresh"))
            self.resolutions.append(("asin", "fresh"))
            res = y
        self.memo[k] = res
        return res

    def atan(self, x: Val):
        if x.is_zero():
            return Val(0)
        k = ("atan",) + self.key(x)
        if k in self.memo:
            return self.memo[k]
        res = None
        for A in self.angles:
            if "atan" in A.flags:
                t = A.tan
                if t is None and A.sin is not None and A.cos is not None:
                    t = A.sin / A.cos
                if t is None:
                    continue
                if self.entails_eq(x, t, 3000):
                    res = A.term
                    self.resolutions.append(("atan", "table"))
                    break
                if self.entails_eq(x, -t, 3000):
                    res = -A.term
                    self.resolutions.append(("atan", "table"))
                    break
        if res is None:
            y = Val.term(self.new("atan"))
            pi = self.pi()
            self.axiom(V.gt(y, -pi / 2), V.lt(y, pi / 2))
            # sign of y = sign of x
            self.axiom(z3.Implies(V.gt(x, 0), V.gt(y, 0)), z3.Implies(V.lt(x, 0), V.lt(y, 0)),
                       z3.Implies(v_eq(x, 0), v_eq(y, 0)))
            self.angles.append(Angle(y, tan=x, flags={"atan", "asin"}, name="atan-fresh"))
            self.resolutions.append(("atan", "fresh"))
            res = y
        self.memo[k] = res
        return res

    def atan2(self, a: Val, b: Val):
        """atan2(a, b): angle y in (-pi, pi] with (sin y, cos y) = (a, b)/r"""
        k = ("atan2",) + self.key(a) + self.key(b)
        if k in self.memo:
            return self.memo[k]
        res = None
        for A in self.angles:
            if "atan2" in A.flags and A.sin is not None and A.cos is not None:
                # a*cosA == b*sinA and a*sinA + b*cosA > 0
                if not self.maybe_equal(a * A.cos, b * A.sin):
                    continue
                if self.entails_eq(a * A.cos, b * A.sin, 3000) and self.entails(
                        V.gt(a * A.sin + b * A.cos, 0), 3000):
                    res = A.term
                    self.resolutions.append(("atan2", "table"))
                    break
        if res is None:
            y = Val.term(self.new("atan2"))
            r = self.sqrt(a * a + b * b)
            pi = self.pi()
            s = Val.term(self.new("sin"))
            c = Val.term(self.new("cos"))
            # (s, c) * r = (a, b), unit circle; r = 0 -> y = 0 in C (atan2(0,0) = 0) but we leave
            # it unconstrained except for the circle
            self.axiom(v_eq(s * r, a), v_eq(c * r, b), v_eq(s * s + c * c, 1))
            self.axiom(V.gt(y, -pi), V.le(y, pi))
            self.axiom(z3.Implies(V.gt(s, 0), V.gt(y, 0)), z3.Implies(V.lt(s, 0), V.lt(y, 0)))
            self.angles.append(Angle(y, sin=s, cos=c, flags={"atan2"}, name="atan2-fresh"))
            self.resolutions.append(("atan2", "fresh"))
            res = y
        self.memo[k] = res
        return res


# =============================================================================================
# SMT cell domain
# =============================================================================================

def snap_constant(x: float, max_den=5040):
    """nearest small-denominator rational if the double is within 2 ulp of it, else the exact double"""
    fx = Fraction(x)
    cand = fx.limit_denominator(max_den)
    if cand == fx:
        return fx
    if x != 0 and abs(cand - fx) <= abs(fx) * Fraction(1, 2 ** 51):
        return cand
    return fx


class ValDomain:
    lazy_ite = True
    snap = False  # read double constants within 2 ulp of p/q (q <= 5040) as p/q (stated per harness)

    def __init__(self, ctx: Ctx, prefix=()):
        self.ctx = ctx
        self.prefix = list(prefix)
        self.decisions = []  # (bool choice, forced?)
        self.alternatives = []
        self.divs = []  # Vals that were divided by (for definedness queries)
        self.feas_timeout = 5000
        self._decided = {}

    # ---- decisions --------------------------------------------------------------------
    def decide(self, f) -> bool:
        if z3.is_true(f):
            return True
        if z3.is_false(f):
            return False
        sf = z3.simplify(f)
        if z3.is_true(sf):
            return True
        if z3.is_false(sf):
            return False
        fid = sf.get_id()
        if fid in self._decided and self._decided[fid][0].eq(sf):
            # the same condition was met earlier on this path: no new decision (the stored AST keeps the id alive)
            return self._decided[fid][1]
        k = len(self.decisions)
        if k < len(self.prefix):
            choice = self.prefix[k]
            self.decisions.append(choice)
            self._decided[fid] = (sf, choice)
            self.ctx.path(f if choice else z3.Not(f))
            return choice
        if self.ctx.light_feasibility:
            # over-approximate feasibility (sound: an empty cell only costs time and is dropped by the
            # reachability check of the cell)
            rt = self.ctx.check_light(f)
            rf = self.ctx.check_light(z3.Not(f))
        else:
            rt = self.ctx.check(f, timeout_ms=self.feas_timeout)
            rf = self.ctx.check(z3.Not(f), timeout_ms=self.feas_timeout)
        can_t = rt != "unsat"
        can_f = rf != "unsat"
        if can_t and can_f:
            choice = True
            self.alternatives.append([d for d in self.decisions] + [False])
        elif can_t:
            choice = True
        elif can_f:
            choice = False
        else:
            raise Infeasible()
        self.decisions.append(choice)
        self._decided[fid] = (sf, choice)
        self.ctx.path(f if choice else z3.Not(f))
        return choice

    def const(self, x):
        if x != x or x in (float("inf"), float("-inf")):
            # evaluation is demand-driven: a constant is only read on the selected path
            raise Undefined(f"non-finite constant {x} on the selected path")
        if self.snap or getattr(self.ctx, "snap_constants", False):
            return Val(snap_constant(x))
        return Val(Fraction(x))

    def exact(self, fr):
        return Val(Fraction(fr))

    def truth(self, x: Val):
        if x.is_const():
            return x.c != 0
        return self.decide(V.ne(x, 0))

    def add(self, a, b):
        return a + b

    def sub(self, a, b):
        return a - b

    def mul(self, a, b):
        return a * b

    def neg(self, a):
        return -a

    def div(self, a, b):
        if b.is_zero():
            raise Undefined("division by constant zero")
        if not b.is_const():
            self.divs.append(b)
        return a / b

    def sqrt(self, a):
        return self.ctx.sqrt(a)

    def pow(self, a, b):
        if not b.is_const():
            raise Unsupported("pow with symbolic exponent")
        e = b.c
        if e.denominator == 1:
            n = int(e)
            if n < 0:
                if a.is_zero():
                    raise Undefined("0**negative")
                if not a.is_const():
                    self.divs.append(a)
            return a ** n
        if e.denominator == 2:
            r = self.ctx.sqrt(a)
            n = int(e.numerator)
            if n < 0:
                if not r.is_const():
                    self.divs.append(r)
            return r ** n
        raise Unsupported(f"pow exponent {e}")

    def sin(self, a):
        return self.ctx.sin(a)

    def cos(self, a):
        return self.ctx.cos(a)

    def tan(self, a):
        return self.ctx.tan(a)

    def asin(self, a):
        return self.ctx.asin(a)

    def acos(self, a):
        return self.ctx.acos(a)

    def atan(self, a):
        return self.ctx.atan(a)

    def atan2(self, a, b):
        return self.ctx.atan2(a, b)

    def exp(self, a):
        raise Unsupported("exp")

    def log(self, a):
        raise Unsupported("log")

    def fabs(self, a):
        if a.is_const():
            return Val(abs(a.c))
        return a if self.decide(V.ge(a, 0)) else -a

    def sign(self, a):
        if a.is_const():
            return Val(1 if a.c > 0 else (-1 if a.c < 0 else 0))
        if self.decide(V.gt(a, 0)):
            return Val(1)
        if self.decide(V.lt(a, 0)):
            return Val(-1)
        return Val(0)

    def _b(self, t):
        return Val(1) if t else Val(0)

    def lt(self, a, b):
        return self._b(self.decide(v_lt(a, b)))

    def le(self, a, b):
        return self._b(self.decide(v_le(a, b)))

    def eq(self, a, b):
        return self._b(self.decide(v_eq(a, b)))

    def ne(self, a, b):
        return self._b(not self.decide(v_eq(a, b)))

    def not_(self, a):
        return self._b(not self.truth(a))

    def and_(self, a, b):
        ta = self.truth(a)
        tb = self.truth(b)
        return self._b(ta and tb)

    def or_(self, a, b):
        ta = self.truth(a)
        tb = self.truth(b)
        return self._b(ta or tb)

    def fmin(self, a, b):
        return a if self.decide(v_le(a, b)) else b

    def fmax(self, a, b):
        return a if self.decide(V.ge(a, b)) else b

    def floor(self, a):
        if a.is_const():
            return Val(math.floor(a.c))
        n = z3.ToReal(self.ctx.new_int("floor"))
        r = Val.term(n)
        self.ctx.axiom(V.le(r, a), V.lt(a, r + 1))
        return r

    def ceil(self, a):
        if a.is_const():
            return Val(math.ceil(a.c))
        n = z3.ToReal(self.ctx.new_int("ceil"))
        r = Val.term(n)
        self.ctx.axiom(V.ge(r, a), V.gt(a, r - 1))
        return r

    def remainder(self, a, b):
        # r = a - n*b with n = nearest integer to a/b (ties: either, over-approximation)
        n = Val.term(z3.ToReal(self.ctx.new_int("rem")))
        r = a - n * b
        if not b.is_const():
            self.divs.append(b)
            ab = b if self.decide(V.ge(b, 0)) else -b
        else:
            ab = Val(abs(b.c))
        self.ctx.axiom(V.le(r * 2, ab), V.ge(r * 2, -ab))
        return r

    def fmod(self, a, b):
        n = Val.term(z3.ToReal(self.ctx.new_int("fmod")))
        r = a - n * b
        if not b.is_const():
            self.divs.append(b)
            ab = b if self.decide(V.ge(b, 0)) else -b
        else:
            ab = Val(abs(b.c))
        if self.decide(V.ge(a, 0)):
            self.ctx.axiom(V.ge(r, 0), V.lt(r, ab))
        else:
            self.ctx.axiom(V.le(r, 0), V.gt(r, -ab))
        return r


class Infeasible(Exception):
    pass


class Cell:
    def __init__(self, ctx, dom, outs, decisions):
        self.ctx = ctx
        self.dom = dom
        self.outs = outs
        self.decisions = decisions
        self.error = None


def explore(ir, make_ctx, max_cells=64, wanted=None):
    """Enumerate the feasible branch cells of `ir`.  make_ctx() -> (ctx, in_vals) builds a fresh
    context with the harness' preconditions/tables each time (cells are re-executed from scratch
    with a decision prefix).  Yields Cell objects."""
    work = [[]]
    n = 0
    while work:
        prefix = work.pop()
        ctx, in_vals = make_ctx()
        ctx.in_vals = in_vals
        dom = ValDomain(ctx, prefix)
        err = None
        try:
            outs = evaluate(ir, in_vals, dom, wanted)
        except Infeasible:
            continue
        except Undefined as e:
            # an operation with constant operands is undefined on this path (1/0, inf constant): report the
            # cell and keep exploring the others
            outs, err = None, str(e)
        for alt in dom.alternatives:
            work.append(alt)
        n += 1
        c = Cell(ctx, dom, outs, list(dom.decisions))
        c.error = err
        yield c
        if n >= max_cells:
            if work:
                raise Unsupported(f"more than {max_cells} cells in {ir.name}")
            return


# =============================================================================================
# ite domain (plain z3 terms)
# =============================================================================================

class IteDomain:
    """values: ('r', term) reals or ('b', Bool).  All ops eager; x/y is z3 real division."""
    lazy_ite = False

    snap = False

    def __init__(self):
        self.divs = []
        self.sqrts = []
        self.axioms = []
        self.fresh = 0
        self._sqrt_memo = {}

    def exact(self, fr):
        return ("r", Q(Fraction(fr)))

    @staticmethod
    def r(x):
        if x[0] == "r":
            return x[1]
        return z3.If(x[1], Q(1), Q(0))

    @staticmethod
    def b(x):
        if x[0] == "b":
            return x[1]
        return x[1] != 0

    def const(self, x):
        if x != x or x in (float("inf"), float("-inf")):
            raise Undefined(f"non-finite constant {x}")
        return ("r", Q(snap_constant(x) if self.snap else Fraction(x)))

    def ite0(self, c, v):
        return ("r", z3.If(self.b(c), self.r(v), Q(0)))

    def add(self, a, b):
        return ("r", self.r(a) + self.r(b))

    def sub(self, a, b):
        return ("r", self.r(a) - self.r(b))

    def mul(self, a, b):
        return ("r", self.r(a) * self.r(b))

    def neg(self, a):
        return ("r", -self.r(a))

    def div(self, a, b):
        self.divs.append(self.r(b))
        return ("r", self.r(a) / self.r(b))

    def sqrt(self, a):
        t = self.r(a)
        k = t.get_id()
        if k in self._sqrt_memo and self._sqrt_memo[k][0].eq(t):
            return ("r", self._sqrt_memo[k][1])
        self.fresh += 1
        y = z3.Real(f"sqrt!{self.fresh}")
        self.axioms.append(z3.And(y >= 0, z3.Implies(t >= 0, y * y == t)))
        self.sqrts.append(t)
        self._sqrt_memo[k] = (t, y)
        return ("r", y)

    def pow(self, a, b):
        e = z3.simplify(self.r(b))
        if not z3.is_rational_value(e):
            return self._uf("pow", a, b)
        e = Fraction(e.numerator_as_long(), e.denominator_as_long())
        if e.denominator == 1 and e >= 0:
            t = Q(1)
            for _ in range(int(e)):
                t = t * self.r(a)
            return ("r", t)
        if e == Fraction(1, 2):
            return self.sqrt(a)
        if e.denominator == 1 and e < 0:
            d = Q(1)
            for _ in range(int(-e)):
                d = d * self.r(a)
            self.divs.append(d)
            return ("r", Q(1) / d)
        if e.denominator == 2:
            y = self.sqrt(a)
            n = int(e.numerator)
            t = Q(1)
            for _ in range(abs(n)):
                t = t * self.r(y)
            if n < 0:
                self.divs.append(t)
                return ("r", Q(1) / t)
            return ("r", t)
        return self._uf(f"pow_{e.numerator}_{e.denominator}", a)

    # transcendental functions are uninterpreted (congruence only): two sides that apply the same function to
    # provably equal arguments agree, anything else is left open
    EVEN = ("cos", "cosh")
    ODD = ("sin", "tan", "asin", "atan", "sinh", "tanh", "asinh", "atanh")
    parity = False  # opt-in: also use f(-a) = +-f(a) (CasADi folds cos(-u) to cos(u))

    def _uf(self, name, *a):
        f = z3.Function(f"uf_{name}", *([z3.RealSort()] * (len(a) + 1)))
        if self.parity and len(a) == 1 and name in self.EVEN + self.ODD:
            x = self.r(a[0])
            ax = z3.If(x >= 0, x, -x)
            return ("r", f(ax) if name in self.EVEN else z3.If(x >= 0, f(ax), -f(ax)))
        return ("r", f(*[self.r(x) for x in a]))

    def truth(self, x):
        raise Unsupported("truth() in ite mode")

    def sin(self, a):
        return self._uf("sin", a)

    def cos(self, a):
        return self._uf("cos", a)

    def tan(self, a):
        return self._uf("tan", a)

    def asin(self, a):
        return self._uf("asin", a)

    def acos(self, a):
        return self._uf("acos", a)

    def atan(self, a):
        return self._uf("atan", a)

    def atan2(self, a, b):
        return self._uf("atan2", a, b)

    def exp(self, a):
        return self._uf("exp", a)

    def log(self, a):
        return self._uf("log", a)

    def sinh(self, a):
        return self._uf("sinh", a)

    def cosh(self, a):
        return self._uf("cosh", a)

    def tanh(self, a):
        return self._uf("tanh", a)

    def asinh(self, a):
        return self._uf("asinh", a)

    def acosh(self, a):
        return self._uf("acosh", a)

    def atanh(self, a):
        return self._uf("atanh", a)

    def erf(self, a):
        return self._uf("erf", a)

    def floor(self, a):
        return ("r", z3.ToReal(z3.ToInt(self.r(a))))

    def ceil(self, a):
        return ("r", -z3.ToReal(z3.ToInt(-self.r(a))))

    def fmod(self, a, b):
        """C fmod: a - b*trunc(a/b)"""
        x, y = self.r(a), self.r(b)
        self.divs.append(y)
        q = x / y
        tr = z3.If(q >= 0, z3.ToReal(z3.ToInt(q)), -z3.ToReal(z3.ToInt(-q)))
        return ("r", x - y * tr)

    def remainder(self, a, b):
        """C remainder: a - b*n, n = a/b rounded to nearest, ties to even"""
        x, y = self.r(a), self.r(b)
        self.divs.append(y)
        q = x / y
        fl = z3.ToInt(q)
        fr = q - z3.ToReal(fl)
        half = Q(Fraction(1, 2))
        n = z3.If(fr < half, fl, z3.If(fr > half, fl + 1, z3.If(fl % 2 == 0, fl, fl + 1)))
        return ("r", x - y * z3.ToReal(n))

    def fabs(self, a):
        t = self.r(a)
        return ("r", z3.If(t >= 0, t, -t))

    def sign(self, a):
        t = self.r(a)
        return ("r", z3.If(t > 0, Q(1), z3.If(t < 0, Q(-1), Q(0))))

    def lt(self, a, b):
        return ("b", self.r(a) < self.r(b))

    def le(self, a, b):
        return ("b", self.r(a) <= self.r(b))

    def eq(self, a, b):
        return ("b", self.r(a) == self.r(b))

    def ne(self, a, b):
        return ("b", self.r(a) != self.r(b))

    def not_(self, a):
        return ("b", z3.Not(self.b(a)))

    def and_(self, a, b):
        return ("b", z3.And(self.b(a), self.b(b)))

    def or_(self, a, b):
        return ("b", z3.Or(self.b(a), self.b(b)))

    def fmin(self, a, b):
        x, y = self.r(a), self.r(b)
        return ("r", z3.If(x <= y, x, y))

    def fmax(self, a, b):
        x, y = self.r(a), self.r(b)
        return ("r", z3.If(x >= y, x, y))
