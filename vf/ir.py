"""IR extraction: CasADi SX Function -> SSA DAG (front end A of DESIGN.md §1.1).

The instruction list (`Function.instruction_id/input/output/constant`) is exactly what CasADi's
virtual machine runs and what its C generator prints.  We turn the register program into an SSA
DAG so that the interpreters can evaluate it demand-driven.
"""
from __future__ import annotations
import casadi as ca
from fractions import Fraction

OPNAME = {getattr(ca, n): n[3:] for n in dir(ca) if n.startswith("OP_")}

UNARY = {"NEG", "SQ", "TWICE", "INV", "SQRT", "SIN", "COS", "TAN", "ASIN", "ACOS", "ATAN",
         "FABS", "SIGN", "NOT", "FLOOR", "CEIL", "EXP", "LOG", "SINH", "COSH", "TANH",
         "ASINH", "ACOSH", "ATANH", "ERF", "ASSIGN", "LOG1P", "EXPM1", "ERFINV"}
BINARY = {"ADD", "SUB", "MUL", "DIV", "POW", "CONSTPOW", "LT", "LE", "EQ", "NE", "AND", "OR",
          "IF_ELSE_ZERO", "FMIN", "FMAX", "ATAN2", "FMOD", "REMAINDER", "COPYSIGN", "HYPOT"}


class Node:
    __slots__ = ("op", "args", "const", "inp")

    def __init__(self, op, args=(), const=None, inp=None):
        self.op = op
        self.args = tuple(args)
        self.const = const  # float for CONST
        self.inp = inp  # (input index, nz index) for INPUT

    def __repr__(self):
        return f"{self.op}{self.args}{'' if self.const is None else self.const}{'' if self.inp is None else self.inp}"


class IR:
    """SSA DAG of one CasADi function."""

    def __init__(self, f: ca.Function):
        if f.class_name() != "SXFunction":
            raise TypeError(f"only SXFunction supported, got {f.class_name()}")
        self.f = f
        self.name = f.name()
        self.nodes: list[Node] = []
        self.n_in = f.n_in()
        self.n_out = f.n_out()
        self.in_nnz = [f.nnz_in(i) for i in range(self.n_in)]
        self.out_nnz = [f.nnz_out(i) for i in range(self.n_out)]
        self.in_names = [f.name_in(i) for i in range(self.n_in)]
        self.out_names = [f.name_out(i) for i in range(self.n_out)]
        self.out_sparsity = [f.sparsity_out(i) for i in range(self.n_out)]
        self.in_sparsity = [f.sparsity_in(i) for i in range(self.n_in)]
        # outputs[i][k] = node id of nz k of output i (None = never written -> 0)
        self.outputs = [[None] * n for n in self.out_nnz]
        self.n_instr = f.n_instructions()
        reg = {}
        for k in range(self.n_instr):
            opid = f.instruction_id(k)
            op = OPNAME.get(opid)
            if op is None:
                raise NotImplementedError(f"unknown opcode {opid}")
            ii = f.instruction_input(k)
            oo = f.instruction_output(k)
            if op == "CONST":
                self.nodes.append(Node("CONST", const=float(f.instruction_constant(k))))
                reg[oo[0]] = len(self.nodes) - 1
            elif op == "INPUT":
                self.nodes.append(Node("INPUT", inp=(ii[0], ii[1])))
                reg[oo[0]] = len(self.nodes) - 1
            elif op == "OUTPUT":
                self.outputs[oo[0]][oo[1]] = reg[ii[0]]
            elif op in UNARY:
                self.nodes.append(Node(op, (reg[ii[0]],)))
                reg[oo[0]] = len(self.nodes) - 1
            elif op in BINARY:
                self.nodes.append(Node(op, (reg[ii[0]], reg[ii[1]])))
                reg[oo[0]] = len(self.nodes) - 1
            else:
                raise NotImplementedError(f"unsupported op {op} in {self.name}")

    def ops_used(self):
        s = {}
        for n in self.nodes:
            s[n.op] = s.get(n.op, 0) + 1
        return s

    # ---- dense helpers --------------------------------------------------------------------
    def out_shape(self, i):
        sp = self.out_sparsity[i]
        return sp.size1(), sp.size2()

    def out_dense(self, i, nz_vals, zero):
        """arrange nz values of output i into a dense row-major list of lists"""
        sp = self.out_sparsity[i]
        r, c = sp.size1(), sp.size2()
        M = [[zero for _ in range(c)] for _ in range(r)]
        rows = sp.row()
        colind = sp.colind()
        k = 0
        for j in range(c):
            for idx in range(colind[j], colind[j + 1]):
                M[rows[idx]][j] = nz_vals[k]
                k += 1
        return M


def fn(name, ins, outs, in_names=None, out_names=None):
    """Build a ca.Function from SX inputs/outputs (inputs are dense column vectors or scalars)."""
    if in_names is None:
        in_names = [f"i{k}" for k in range(len(ins))]
    if out_names is None:
        out_names = [f"o{k}" for k in range(len(outs))]
    return ca.Function(name, list(ins), list(outs), in_names, out_names)
